"""Run framework shared by all property checks.

A property check is: (1) bounded model checking of the relevant specification modules by TLC,
(2) drivers that execute the REAL cooler code on enumerated / random cases and record one event
per case (code -> spec), (3) TLC validating every recorded event against the trace specification
(which reuses the operators of the main specification), (4) evidence.

The harness never computes an expected value: every judgement is a named clause evaluated by TLC.
"""
from __future__ import annotations

import hashlib
import json
import multiprocessing as mp
import os
import shutil
import sys
import tempfile
import time
import traceback

from . import tlc
from .tlc import MachineryError

ROOT = os.path.dirname(os.path.dirname(os.path.abspath(__file__)))
EVIDENCE_DIR = os.path.join(ROOT, "evidence")
REPLAY_DIR = os.environ.get("VERIF_REPLAY_DIR") or os.path.join(ROOT, "replays")
FINDINGS_FILE = os.path.join(ROOT, "known_findings.json")
NPROC = min(16, os.cpu_count() or 4)


def setup_repo_import():
    """Make `import cooler` resolve to the current working tree of /repo (or VERIF_REPO_SRC), hooks on."""
    os.environ.setdefault("COOLER_VERIF", "1")
    os.environ.setdefault("PYTHONHASHSEED", "0")
    src = os.environ.get("VERIF_REPO_SRC", "/repo/src")
    if src not in sys.path:
        sys.path.insert(0, src)
    import warnings
    warnings.filterwarnings("ignore")
    import logging
    logging.disable(logging.WARNING)


# ----------------------------------------------------------------------------------------------
# driver registry: name -> function(case: dict, ctx: Ctx) -> obs dict   (runs the real code)
# ----------------------------------------------------------------------------------------------
DRIVERS: dict = {}


DRIVER_TIMEOUT = {}          # seconds after which a case counts as "did not terminate"
CASE_TIMEOUT = int(os.environ.get("VERIF_CASE_TIMEOUT", "600"))


class CaseTimeout(Exception):
    pass


def driver(name, timeout=None):
    def deco(fn):
        DRIVERS[name] = fn
        if timeout:
            DRIVER_TIMEOUT[name] = timeout
        return fn
    return deco


class Ctx:
    """Per-worker context: a private scratch directory outside /repo and /verif."""

    def __init__(self):
        # (inside the scratch directory of the run when there is one: pool workers are terminated without running their
        #  atexit handlers, so the parent removes the whole directory when the pool is done)
        self.dir = tempfile.mkdtemp(prefix="cvf_w_", dir=os.environ.get("VERIF_WORKER_BASE") or None)
        self.k = 0

    def path(self, suffix=".cool"):
        self.k += 1
        return os.path.join(self.dir, f"f{self.k}{suffix}")

    def subdir(self):
        self.k += 1
        d = os.path.join(self.dir, f"d{self.k}")
        os.makedirs(d)
        return d

    def cleanup(self):
        shutil.rmtree(self.dir, ignore_errors=True)


_ctx = None


def _worker_init():
    global _ctx
    try:
        # a runaway case must end as MemoryError (-> clause "completes"), not take the machine down
        import resource
        lim = int(os.environ.get("VERIF_WORKER_AS_GB", "12")) << 30
        if mp.current_process().name != "MainProcess":     # pool workers only (the main process starts the JVMs)
            resource.setrlimit(resource.RLIMIT_AS, (lim, lim))
    except (ImportError, ValueError, OSError):
        pass
    setup_repo_import()
    _ctx = Ctx()
    import atexit
    atexit.register(_ctx.cleanup)


def _run_chunk(chunk):
    """chunk: list of (drv, case).  Returns list of (drv, case, obs|None, err|None)."""
    global _ctx
    if _ctx is None:
        _worker_init()
    out = []
    def _alarm(signum, frame):
        raise CaseTimeout()
    import signal
    for drv, case in chunk:
        limit = DRIVER_TIMEOUT.get(drv, CASE_TIMEOUT)
        try:
            old = signal.signal(signal.SIGALRM, _alarm)
            signal.alarm(limit)
            try:
                obs = DRIVERS[drv](case, _ctx)
            finally:
                signal.alarm(0)
                signal.signal(signal.SIGALRM, old)
            out.append((drv, case, obs, None))
        except CaseTimeout:
            # the call under test did not return (deadlock / endless loop): an observation, judged by clause "completes"
            out.append((drv, case, {"crash": f"Timeout: no result within {limit} s", "where": "watchdog"}, None))
        except MachineryError:
            out.append((drv, case, None, traceback.format_exc()))
        except Exception as ex:
            # The code under test raised where the driver expected a result.  That is an observation,
            # judged by the trace specification (clause "completes"), not a harness failure.
            tb = traceback.extract_tb(ex.__traceback__)
            where = "; ".join(f"{os.path.basename(fr.filename)}:{fr.lineno}" for fr in tb[-3:])
            out.append((drv, case, {"crash": f"{type(ex).__name__}: {str(ex)[:200]}", "where": where}, None))
    # keep scratch small
    for name in os.listdir(_ctx.dir):
        p = os.path.join(_ctx.dir, name)
        try:
            if os.path.isdir(p):
                shutil.rmtree(p, ignore_errors=True)
            else:
                os.unlink(p)
        except OSError:
            pass
    return out


def run_cases(cases, nproc=NPROC, chunk=64):
    """Execute drivers over cases (an iterable of (drv, case)); yields (drv, case, obs).

    A driver that raises is a machinery failure (drivers catch the exceptions of the code under
    test themselves and record them as observations)."""
    buf, chunks = [], []
    for c in cases:
        buf.append(c)
        if len(buf) >= chunk:
            chunks.append(buf)
            buf = []
    if buf:
        chunks.append(buf)
    if not chunks:
        return
    if nproc <= 1 or len(chunks) == 1:
        for ch in chunks:
            for drv, case, obs, err in _run_chunk(ch):
                if err:
                    raise MachineryError(f"driver {drv} failed on {json.dumps(case)[:400]}:\n{err}")
                yield drv, case, obs
        return
    ctx = mp.get_context("fork")
    base = tempfile.mkdtemp(prefix="cvf_run_")
    os.environ["VERIF_WORKER_BASE"] = base
    try:
        with ctx.Pool(nproc, initializer=_worker_init) as pool:
            for res in pool.imap(_run_chunk, chunks):
                for drv, case, obs, err in res:
                    if err:
                        raise MachineryError(f"driver {drv} failed on {json.dumps(case)[:400]}:\n{err}")
                    yield drv, case, obs
    finally:
        os.environ.pop("VERIF_WORKER_BASE", None)
        shutil.rmtree(base, ignore_errors=True)


# ----------------------------------------------------------------------------------------------
# known findings
# ----------------------------------------------------------------------------------------------
def load_findings():
    if not os.path.exists(FINDINGS_FILE):
        return []
    with open(FINDINGS_FILE) as f:
        return json.load(f).get("findings", [])


def match_finding(findings, prop, key):
    """An open finding suppresses exactly the violations whose key it lists."""
    for fd in findings:
        if fd.get("status") == "open" and fd.get("property") == prop and key in fd.get("keys", []):
            return fd
    return None


# ----------------------------------------------------------------------------------------------
# one run of one property check
# ----------------------------------------------------------------------------------------------
class Run:
    def __init__(self, prop: str, tier: str, seed: int, level: str = "model_checking", replay: bool = False):
        self.prop, self.tier, self.seed, self.level = prop, tier, seed, level
        self.replay = replay          # a --replay run judges one case and leaves the evidence file alone
        self.t0 = time.time()
        self.scratch = tempfile.mkdtemp(prefix=f"cvf_{prop}_")
        self.mc = []                  # MCResult list
        self.states = 0
        self.transitions = 0
        self.events = 0
        self.accepted = 0
        self.case_hashes = set()
        self.nontrivial_hashes = set()
        self.samples = []
        self.per_driver = {}
        self.violations = []          # dict(key, id, clauses, event, replay)
        self.known = []
        self.drift = []
        self.clause_counts = {}
        self.clauses_evaluated = 0
        self.timing = {}
        self.notes = []
        self.assumptions = []
        self.rule = ""
        self.exhaustive = None
        self.extra = {}
        self.findings = load_findings()
        self._writers = {}
        self._next_id = 0

    # -- model checking -------------------------------------------------------------------
    def model_check(self, module, cfg, **kw):
        r = tlc.model_check(module, cfg, **kw)
        self.timing["model_checking"] = self.timing.get("model_checking", 0) + r.wall_s
        self.mc.append(r)
        self.states += r.states
        self.transitions += r.generated
        if not r.ok:
            # A counterexample inside the specification is a *candidate*: it says the model of the
            # algorithm does not imply the declarative layer.  Without reproduction on the code it
            # is a machinery error, never an alarm (DESIGN section 2).
            raise MachineryError(
                f"TLC found {r.violated} violated in {module}/{cfg}; specification-level counterexample "
                f"(not a verdict about the code):\n{r.counterexample[:3000]}")
        return r

    def expect_refuted(self, module, cfg, invariant, **kw):
        """A PINNED instance: the operator that transcribes the code as it was BEFORE a repair (or a deliberately broken
        protocol variant) must be refuted by TLC on the named invariant - the specification can tell the defect from the
        repair.  Anything else (no counterexample, another invariant) is a machinery error."""
        r = tlc.model_check(module, cfg, **kw)
        self.timing["model_checking"] = self.timing.get("model_checking", 0) + r.wall_s
        if r.ok or r.violated != invariant:
            raise MachineryError(f"pinned instance {module}/{cfg}: expected TLC to refute {invariant}, got "
                                 f"{'no error' if r.ok else r.violated}")
        r.mode = "refuted-as-expected:" + invariant
        self.mc.append(r)
        return r

    # -- recording ------------------------------------------------------------------------
    def writer(self, trace_module, shards=NPROC):
        if trace_module not in self._writers:
            self._writers[trace_module] = tlc.TraceWriter(self.scratch, trace_module, shards)
        return self._writers[trace_module]

    def record(self, trace_module, drv, case, obs, nontrivial=True, shards=NPROC):
        ev = {"id": self._next_id, "drv": drv, "case": case, "obs": obs}
        self._next_id += 1
        self.writer(trace_module, shards).write(ev)
        h = hashlib.blake2b(json.dumps([drv, case], sort_keys=True).encode(), digest_size=12).digest()
        self.case_hashes.add(h)
        if nontrivial:
            self.nontrivial_hashes.add(h)
        d = self.per_driver.setdefault(drv, {"events": 0, "nontrivial": 0})
        d["events"] += 1
        d["nontrivial"] += 1 if nontrivial else 0
        if d["events"] in (1, 7) and len(self.samples) < 12:
            s = json.dumps(ev)
            self.samples.append(ev if len(s) < 1500 else {"id": ev["id"], "drv": drv, "case": case, "obs": "(omitted: long)"})
        return ev["id"]

    def run_and_record(self, trace_module, cases, nontrivial=lambda drv, case, obs: True, nproc=NPROC, chunk=64):
        for drv, case, obs in run_cases(cases, nproc=nproc, chunk=chunk):
            self.record(trace_module, drv, case, obs, nontrivial(drv, case, obs))

    # -- validation -----------------------------------------------------------------------
    def validate(self, trace_module, cfg=None, keyfn=None, timeout=1500):
        w = self._writers.get(trace_module)
        if w is None:
            return None
        paths = w.close()
        v = tlc.validate_traces(trace_module, cfg or (trace_module + ".cfg"), paths, timeout=timeout)
        self.timing["trace_validation"] = self.timing.get("trace_validation", 0) + v.wall_s
        self.events += v.events
        self.accepted += v.accepted
        self.clauses_evaluated += v.clauses
        self.states += v.states
        self.transitions += v.events
        if v.rejects:
            wanted = {i: cl for i, cl in v.rejects}
            for p in paths:
                with open(p) as f:
                    for line in f:
                        ev = json.loads(line)
                        if ev["id"] in wanted:
                            self._reject(trace_module, ev, wanted[ev["id"]], keyfn)
        return v

    def _reject(self, trace_module, ev, clauses, keyfn):
        for c in set(clauses):
            self.clause_counts[c] = self.clause_counts.get(c, 0) + 1
        hard = [c for c in clauses if not c.startswith("drift:")]
        if not hard:
            # internals differ from Layer A but every observable clause held: MODEL-DRIFT, not a violation
            self.drift.append({"id": ev["id"], "drv": ev["drv"], "clauses": clauses,
                               "case": json.dumps(ev["case"])[:300]})
            return
        clauses = hard
        key = keyfn(ev, clauses) if keyfn else f"{ev['drv']}:{','.join(clauses)}:{json.dumps(ev['case'], sort_keys=True)}"
        fd = match_finding(self.findings, self.prop, key)
        if fd is not None:
            self.known.append({"key": key, "what": fd.get("what", ""), "id": ev["id"]})
            return
        os.makedirs(REPLAY_DIR, exist_ok=True)
        h = hashlib.blake2b(key.encode(), digest_size=6).hexdigest()
        path = os.path.join(REPLAY_DIR, f"{self.prop}_{h}.json")
        if len(self.violations) >= 20:      # enough replay files; the rest is only counted
            self.violations.append({"key": key, "clauses": clauses, "replay": "(not written)", "drv": ev["drv"]})
            return
        with open(path, "w") as f:
            json.dump({"property": self.prop, "trace_module": trace_module, "key": key, "clauses": clauses,
                       "drv": ev["drv"], "case": ev["case"], "observed": ev["obs"]}, f, indent=1)
        self.violations.append({"key": key, "clauses": clauses, "replay": path, "drv": ev["drv"]})

    def violation(self, key, what, detail):
        """A violation established outside trace validation (behaviour replay comparison)."""
        fd = match_finding(self.findings, self.prop, key)
        if fd is not None:
            self.known.append({"key": key, "what": fd.get("what", "")})
            return
        os.makedirs(REPLAY_DIR, exist_ok=True)
        h = hashlib.blake2b(key.encode(), digest_size=6).hexdigest()
        path = os.path.join(REPLAY_DIR, f"{self.prop}_{h}.json")
        with open(path, "w") as f:
            json.dump({"property": self.prop, "key": key, "what": what, "detail": detail}, f, indent=1)
        self.violations.append({"key": key, "clauses": [what], "replay": path, "drv": "replay"})

    # -- finish ---------------------------------------------------------------------------
    def finish(self):
        shutil.rmtree(self.scratch, ignore_errors=True)
        wall = time.time() - self.t0
        cov = {
            "states": self.states,
            "transitions": self.transitions,
            "traces_validated_against_impl": self.accepted,
            "samples": self.samples[:10] or [{"note": "no events recorded"}],
            "evaluations": self.events,
            "distinct_nontrivial": len(self.nontrivial_hashes),
            "distinct_cases": len(self.case_hashes),
            "rule": self.rule,
            "per_driver": self.per_driver,
            "model_checking": [
                {"module": r.module, "cfg": r.cfg, "mode": r.mode, "distinct_states": r.states,
                 "states_generated": r.generated, "depth": r.depth, "wall_s": round(r.wall_s, 1),
                 "actions_covered": {k: v[1] for k, v in sorted(r.coverage.items())},
                 "actions_never_taken": sorted(k for k, v in r.coverage.items() if v[1] == 0)}
                for r in self.mc],
            "known_findings_reproduced": self.known[:50],
            "violation_keys": [v["key"][:300] for v in self.violations[:50]],
            "notes": self.notes,
            "rejected_clause_counts": self.clause_counts,
            "clauses_evaluated_by_tlc": self.clauses_evaluated,
            "model_drift": {"events": len(self.drift), "examples": self.drift[:5]},
            "timing_s": {k: round(v, 1) for k, v in self.timing.items()},
        }
        if self.exhaustive is not None:
            cov["exhaustive"] = bool(self.exhaustive)
        cov.update(self.extra)
        ev = {
            "property_id": self.prop, "tier": self.tier, "seed": self.seed, "level": self.level,
            "coverage": cov, "assumptions": self.assumptions, "wall_s": round(wall, 2),
            "violations": len(self.violations),
        }
        if not self.replay and not os.environ.get("VERIF_NO_EVIDENCE"):
            # checks that extend the specification beyond the listed properties (X..) report next to, not among, the evidence
            edir = EVIDENCE_DIR if self.prop.startswith("C") else os.path.join(ROOT, "evidence_extra")
            os.makedirs(edir, exist_ok=True)
            with open(os.path.join(edir, f"{self.prop}.json"), "w") as f:
                json.dump(ev, f, indent=1)
        seen = set()
        for k in self.known:
            line = f"KNOWN-FINDING: property={self.prop} {k['what'] or k['key']}"
            if line not in seen:
                print(line)
                seen.add(line)
        for v in self.violations[:20]:
            print(f"VIOLATION property={self.prop} replay={v['replay']}  # {v['drv']} clauses={','.join(v['clauses'])}")
        if self.drift:
            print(f"MODEL-DRIFT {self.prop}: {len(self.drift)} events whose internals differ from Layer A "
                  f"(observables held; exhaustive TLC result does not transfer for them), e.g. {self.drift[0]['clauses']}")
        if self.clause_counts:
            print(f"rejected clauses (events): {self.clause_counts}")
        print(f"[{self.prop} {self.tier}] states={self.states} transitions={self.transitions} "
              f"events={self.events} accepted={self.accepted} clauses={self.clauses_evaluated} distinct_nontrivial={len(self.nontrivial_hashes)} "
              f"violations={len(self.violations)} known={len(self.known)} wall={wall:.1f}s")
        return 1 if self.violations else 0
