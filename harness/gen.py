"""Enumerators of small-scope inputs (bin tables, stores, windows) and helpers to build real coolers."""
from __future__ import annotations

import itertools
import random

CHROMNAMES = ["a", "b", "c", "d", "e"]


# ---------------------------------------------------------------------------------------------
# bin tables: list of [chrom_index, start, end]
# ---------------------------------------------------------------------------------------------
def compositions(n):
    """All ways to cut [0,n) into consecutive non-empty bins: yields lists of edges [0,...,n]."""
    for r in range(n):
        for cuts in itertools.combinations(range(1, n), r):
            yield [0, *cuts, n]


def table_from_edges(edge_lists):
    t = []
    for c, edges in enumerate(edge_lists):
        for s, e in zip(edges[:-1], edges[1:]):
            t.append([c, s, e])
    return t


def all_tables(max_chroms, max_len, min_len=1):
    """Every valid bin table with 1..max_chroms chromosomes of length min_len..max_len (all compositions)."""
    per_chrom = [edges for n in range(min_len, max_len + 1) for edges in compositions(n)]
    for m in range(1, max_chroms + 1):
        for combo in itertools.product(per_chrom, repeat=m):
            yield table_from_edges(combo)


def binnify(lens, b):
    t = []
    for c, n in enumerate(lens):
        s = 0
        while s < n:
            t.append([c, s, min(s + b, n)])
            s += b
    return t


REPRESENTATIVE_TABLES = {
    # name: table
    "one_fixed":      binnify([6], 2),                 # 3 bins, 1 chromosome
    "fixed_short":    binnify([5, 3], 2),              # short last bins: a:[0,2)[2,4)[4,5) b:[0,2)[2,3)
    "variable":       table_from_edges([[0, 1, 4], [0, 3, 5]]),
    "onebin_chroms":  table_from_edges([[0, 3], [0, 2], [0, 4]]),
    "two_fixed":      binnify([4, 4], 2),
    "long_last":      table_from_edges([[0, 2, 4, 9], [0, 2, 5]]),   # last bin longer than the others
    "grid_long_single": table_from_edges([[0, 2, 4, 6], [0, 5]]),  # uniform grid + a contig covered by one longer bin
    "long_single_first": table_from_edges([[0, 5], [0, 2, 4, 6]]),  # the same with the one-bin contig BEFORE the grid
}


def sibling_table(table):
    """Another valid bin table over the SAME chromosomes and lengths with other interior boundaries (a second digest of one
    genome): a chromosome of several bins becomes one bin, a one-bin chromosome of length >= 2 is cut after its first base."""
    out, by = [], {}
    for c, s, e in table:
        by.setdefault(c, []).append((s, e))
    for c in sorted(by):
        length = by[c][-1][1]
        if len(by[c]) > 1 or length < 2:
            out.append([c, 0, length])
        else:
            out += [[c, 0, 1], [c, 1, length]]
    return out


def chrom_lens(table):
    lens = {}
    for c, s, e in table:
        lens[c] = e
    return [lens[c] for c in sorted(lens)]


# ---------------------------------------------------------------------------------------------
# stores: pixel lists [[i, j, v], ...] sorted
# ---------------------------------------------------------------------------------------------
def positions(n, mode):
    return [(i, j) for i in range(n) for j in range(n) if mode == "square" or i <= j]


def all_stores(n, mode, vals=(1,)):
    pos = positions(n, mode)
    for f in itertools.product((0, *vals), repeat=len(pos)):
        yield [[i, j, v] for (i, j), v in zip(pos, f) if v]


def random_store(rng: random.Random, n, mode, density=None, maxval=3, ncols=1):
    pos = positions(n, mode)
    d = rng.random() if density is None else density
    px = []
    for (i, j) in pos:
        if rng.random() < d:
            px.append([i, j] + [rng.randint(1, maxval) for _ in range(ncols)])
    return px


def structured_stores(n, mode):
    """Stores with full / sparse / empty rows, with and without diagonal (for larger n)."""
    pos = positions(n, mode)
    out = []
    out.append([])
    out.append([[i, j, 1 + (i + j) % 2] for (i, j) in pos])                      # dense
    out.append([[i, j, 1] for (i, j) in pos if i == j])                          # diagonal only
    out.append([[i, j, 2] for (i, j) in pos if i != j])                          # no diagonal
    out.append([[i, j, 1] for (i, j) in pos if i % 2 == 0])                      # empty odd rows
    out.append([[i, j, 1] for (i, j) in pos if i % 2 == 1])                      # empty even rows
    out.append([[i, j, 1 + i] for (i, j) in pos if j == n - 1])                  # last column
    out.append([[i, j, 1] for (i, j) in pos if i == 0])                          # first row only
    out.append([[i, j, 1] for (i, j) in pos if i == n - 1 or j == 0])            # last row / first col
    out.append([[i, j, 1 + (i * j) % 3] for (i, j) in pos if abs(i - j) <= 1])   # band
    out.append([[i, j, 3] for (i, j) in pos if abs(i - j) >= 2])                 # far off-diagonal
    return out


def windows(n):
    for i0 in range(n + 1):
        for i1 in range(i0, n + 1):
            for j0 in range(n + 1):
                for j1 in range(j0, n + 1):
                    yield [i0, i1, j0, j1]


# ---------------------------------------------------------------------------------------------
# building real inputs
# ---------------------------------------------------------------------------------------------
def bins_frame(table, names=None, extra=None):
    import pandas as pd
    names = names or CHROMNAMES
    df = pd.DataFrame({
        "chrom": [names[c] for c, _, _ in table],
        "start": [s for _, s, _ in table],
        "end": [e for _, _, e in table],
    })
    if extra:
        for k, col in extra.items():
            df[k] = col
    return df


def simple_table(n):
    """n unit... bins of width 10 on one chromosome (for index-space properties)."""
    return [[0, 10 * k, 10 * (k + 1)] for k in range(n)]


def pixels_frame(px, cols=("count",), dtypes=None):
    import numpy as np
    import pandas as pd
    d = {"bin1_id": np.array([p[0] for p in px], dtype=np.int64),
         "bin2_id": np.array([p[1] for p in px], dtype=np.int64)}
    for k, name in enumerate(cols):
        dt = (dtypes or {}).get(name, np.int32 if name == "count" else np.int64)
        d[name] = np.array([p[2 + k] for p in px], dtype=dt)
    return pd.DataFrame(d)


def make_cooler(path, table, px, mode="symm", cols=("count",), names=None, mode_="w", scale=1, **kw):
    """`scale` > 1: the value columns are stored as float64 holding v / scale (exact for powers of two)."""
    import cooler
    fr = pixels_frame(px, cols)
    if scale != 1:
        import numpy as np
        for c in cols:
            fr[c] = fr[c].astype(np.float64) / scale
        kw = dict(kw, dtypes={c: np.float64 for c in cols})
    cooler.create_cooler(path, bins_frame(table, names), fr,
                         columns=list(cols) if tuple(cols) != ("count",) else None,
                         ordered=True, symmetric_upper=(mode == "symm"), mode=mode_, **kw)
    return path


def split_uri(uri):
    """(file path, group path) of a cooler URI written by place()."""
    if "::" in uri:
        f, g = uri.split("::", 1)
        return f, g if g.startswith("/") else "/" + g
    return uri, "/"


DECOY_NAMES = ["dz", "dy", "dx", "dw", "dv"]


def decoy_table(table):
    """Another valid bin table with the same chromosomes and bin count: every coordinate times 3 (a reader that takes the
    bin table from the decoy collection reports other coordinates)."""
    return [[c, 3 * s, 3 * e] for c, s, e in table]


def decoy_px(px):
    """Different content on the same bins: every value + 1 (a reader that loses the group path returns THIS)."""
    return [[p[0], p[1]] + [v + 1 for v in p[2:]] for p in px]


def prior_px(px):
    """Other content with other row offsets: every second pixel, values + 2."""
    return [[p[0], p[1]] + [v + 2 for v in p[2:]] for k, p in enumerate(px) if k % 2 == 0]


def relayout(table):
    """The same bins cut into chromosomes differently (the chromosome lengths in reverse order) - None if that is the same."""
    lens = chrom_lens(table)
    widths = {e - s for _, s, e in table}
    if len(lens) < 2 or lens == lens[::-1] or len(widths) != 1:
        return None
    t2 = binnify(lens[::-1], widths.pop())
    return t2 if len(t2) == len(table) else None


def read_everything(uri):
    """What an earlier stage of a pipeline may have done with the path: read it completely through the public API (and
    balance it, cis-only and genome-wide, without storing)."""
    import warnings

    import cooler
    c = cooler.Cooler(uri)
    if c.storage_mode == "symmetric-upper":
        with warnings.catch_warnings():
            warnings.simplefilter("ignore")
            for kw in ({"cis_only": True}, {"trans_only": True}, {}):
                try:
                    cooler.balance_cooler(c, ignore_diags=False, mad_max=0, min_nnz=0, max_iters=3, chunksize=4, **kw)
                except Exception:
                    pass
    c.matrix(balance=False)[:, :]
    c.matrix(balance=False, sparse=True)[:, :]
    c.matrix(balance=False, as_pixels=True)[:, :]
    c.pixels()[:]
    c.bins()[:]
    c.chroms()[:]
    for nm in c.chromnames:
        c.extent(nm)
        c.matrix(balance=False).fetch(nm)
    return c.info


def place(path, table, px, mode="symm", at=None, cols=("count",), names=None, prior=False, **kw):
    """Create the cooler of a case at the root of `path`, or - if `at` names a group - at path::at next to a DECOY
    collection with other content at the root of the same file.  With `prior`, the same URI first holds ANOTHER collection
    (other pixels, other row offsets) that is read completely through the API in this process before it is replaced.
    Returns the URI of the real collection."""
    ptable = (relayout(table) or table) if prior == "relayout" else table
    if not at or at == "/":
        if prior:
            make_cooler(path, ptable, prior_px(px), mode, cols, names, **kw)
            read_everything(path)
        make_cooler(path, table, px, mode, cols, names, **kw)
        return path
    make_cooler(path, decoy_table(table), decoy_px(px), mode, cols, DECOY_NAMES, **kw)      # other names, too
    uri = path + "::" + at
    if prior:
        make_cooler(uri, ptable, prior_px(px), mode, cols, names, mode_="a", **kw)
        read_everything(uri)
    make_cooler(uri, table, px, mode, cols, names, mode_="a", **kw)
    return uri


def int_encode(uri):
    """Rewrite bins/chrom of a collection as PLAIN integer IDs (no HDF5 enum) - the encoding cooler itself falls back to when
    the chromosome names do not fit an enum header (thousands of contigs)."""
    import h5py
    fp, grp = split_uri(uri)
    with h5py.File(fp, "r+") as f:
        g = f[grp]
        ids = g["bins/chrom"][:].astype("int32")
        del g["bins/chrom"]
        ds = g["bins"].create_dataset("chrom", data=ids, dtype="int32")
        ds.attrs["enum_path"] = "/chroms/name"


def feat(seed, h):
    """Independent pseudo-random feature choices for case number h: f(name, n) in 0..n-1 depends on (seed, h, name) only, so
    two features are uncorrelated whatever their moduli (striding h % n couples every pair of features whose moduli share a
    factor - a duplex option that only ever met the API path was how that was noticed), and one feature asked twice agrees."""
    import hashlib

    def f(name, n):
        # (a cryptographic hash: CRC32 is linear, so the low bits of two similar names differ by a constant and features
        #  with power-of-two moduli came out perfectly correlated - seen in the mutation regression)
        return int.from_bytes(hashlib.blake2b(f"{seed}/{h}/{name}".encode(), digest_size=8).digest(), "big") % n
    return f
