"""Projection: real HDF5 / pandas / numpy -> abstract JSON state.  Structural only (type conversion,
no judgement); every judgement is made by TLC.  The raw view reads the file with h5py directly,
never through the code under test."""
from __future__ import annotations

import json

import numpy as np

from .tlc import MachineryError


def to_int(x, what="value"):
    """Exact integer or a machinery error (TLC's JSON reader silently truncates non-integers)."""
    if isinstance(x, (bool, np.bool_)):
        return int(x)
    if isinstance(x, (int, np.integer)):
        return int(x)
    if isinstance(x, (float, np.floating)):
        if np.isnan(x):
            raise MachineryError(f"{what}: NaN where an integer was expected")
        if float(x) != int(x):
            raise MachineryError(f"{what}: non-integral {x!r}")
        return int(x)
    raise MachineryError(f"{what}: cannot project {type(x).__name__} {x!r}")


def ints(a, what="array"):
    return [to_int(x, what) for x in np.asarray(a).tolist()]


def attr(v):
    if isinstance(v, bytes):
        return v.decode()
    if isinstance(v, (np.integer, np.floating, np.bool_)):
        return v.item()
    return v


CAP = 2 ** 24          # no case of any driver stores a pixel value or total of this magnitude


def _cap(v, cap=CAP):
    """A stored value far outside what the cases hold (a wrapped / clipped number written by defective code) is projected to
    the token cap + 1 with its sign: still wrong for every clause that looks at it, but sums of a few of them stay inside
    TLC's 32-bit integers (a TLC overflow is a machinery error, and a machinery error proves nothing)."""
    return v if -cap <= v <= cap else (cap + 1 if v > 0 else -cap - 1)


def raw_collection(grp, max_rows=5000, scale=1):
    """Raw view of one collection (an h5py group), in the shape CoolerData!CSRClauses expects (count and sum times `scale`)."""
    at = {k: attr(v) for k, v in grp.attrs.items()}
    px = grp["pixels"]
    cols = list(px.keys())
    n = px["bin1_id"].shape[0]
    if n > max_rows:
        raise MachineryError(f"collection with {n} pixels is too large for the raw projection")
    bs = at.get("bin-size", "null")
    names = grp["chroms/name"][:]
    out = {
        "nbins": to_int(at.get("nbins", -1)), "nchroms": to_int(at.get("nchroms", -1)),
        "nnz": to_int(at.get("nnz", -1)), "sum": _cap(to_int(at.get("sum", 0) * scale, "sum attribute"), 2 ** 30),
        "mode": str(at.get("storage-mode", "symmetric-upper")),
        "bintype": str(at.get("bin-type", "missing")),
        "binsize": 0 if (isinstance(bs, str)) else to_int(bs),
        "format": str(at.get("format", "")), "format_version": to_int(at.get("format-version", -1)),
        "table": [[c, s, e] for c, s, e in zip(ints(grp["bins/chrom"][:]), ints(grp["bins/start"][:]), ints(grp["bins/end"][:]))],
        "chromlens": ints(grp["chroms/length"][:]), "nnames": int(len(names)),
        "bin1": ints(px["bin1_id"][:]), "bin2": ints(px["bin2_id"][:]),
        "hascount": "count" in cols,
        "count": [_cap(v) for v in ints(np.asarray(px["count"][:]) * scale, "count column")] if "count" in cols else [],
        "lens": [int(px[c].shape[0]) for c in cols],
        "bin1_offset": ints(grp["indexes/bin1_offset"][:]), "chrom_offset": ints(grp["indexes/chrom_offset"][:]),
    }
    return out


def raw_uri(uri, **kw):
    import h5py
    from cooler.util import parse_cooler_uri
    path, group = parse_cooler_uri(uri)
    with h5py.File(path, "r") as f:
        return raw_collection(f[group], **kw)


def canon_json(obj):
    return json.dumps(obj, sort_keys=True, separators=(",", ":"), ensure_ascii=True)


def pixel_rows(df, cols, scale=1):
    """Rows of a pixel data frame as lists of exact integers, columns in the given order (value columns times `scale`)."""
    arrs = [np.asarray(df[c]) if c in ("bin1_id", "bin2_id") or scale == 1 else np.asarray(df[c], dtype=np.float64) * scale
            for c in cols]
    return [[to_int(a[k], f"pixel column {c}") for a, c in zip(arrs, cols)] for k in range(len(df))]


def api_view(clr, cols=("count",), scale=1):
    """What the public API reads back from a Cooler: pixel table, dense and sparse full matrix, tables, info."""
    cols = list(cols)
    p = clr.pixels()[:]
    n = clr.shape[0]
    names = list(clr.chromnames)
    b = clr.bins()[:]
    info = clr.info
    out = {
        "pixels": pixel_rows(p, ["bin1_id", "bin2_id", *cols], scale),
        "pcolumns": [str(c) for c in p.columns],
        "pindex": ints(p.index),
        "bins": [[names.index(str(ch)), to_int(s), to_int(e)] for ch, s, e in zip(b["chrom"], b["start"], b["end"])],
        "chromlens": ints(clr.chromsizes.values),
        "nnz": to_int(info["nnz"]), "nbins": to_int(info["nbins"]),
        "mode": str(clr.storage_mode),
        "meta": canon_json(info.get("metadata", "MISSING")),
        "assembly": str(info.get("genome-assembly", "MISSING")),
    }
    if "count" in cols or not cols:
        de = clr.matrix(balance=False)[:, :]
        sp = clr.matrix(balance=False, sparse=True)[:, :]
        out["dense"] = [[to_int(x * scale) for x in row] for row in de]
        out["sparse"] = [[int(r), int(c), to_int(v * scale)] for r, c, v in zip(sp.row, sp.col, sp.data)]
        out["shape"] = [int(sp.shape[0]), int(sp.shape[1])]
    if len(cols) > 1 or (cols and cols[0] != "count"):
        f = cols[-1]
        sp = clr.matrix(field=f, balance=False, sparse=True)[:, :]
        out["sparse_f"] = [[int(r), int(c), to_int(v * scale)] for r, c, v in zip(sp.row, sp.col, sp.data)]
    return out
