"""Drivers for balancing (C10, C11)."""
from __future__ import annotations

import os
import random
import warnings
from functools import partial

import numpy as np

from .. import gen, project
from ..core import driver


def _mk(case, ctx):
    """URI of the cooler of the case: at the file root, or in the group case["at"] next to a decoy with other content."""
    return gen.place(ctx.path(), case["table"], case["px"], "symm", at=case.get("at"), prior=case.get("prior", False))


def _open(case, uri):
    """The Cooler object that is balanced: a fresh one, or - case["stale"] - one that was constructed (and used) while the URI
    still held ANOTHER collection on the same bins (fewer pixels), which has been replaced since."""
    import cooler
    if not case.get("stale"):
        return cooler.Cooler(uri)
    fp, grp = gen.split_uri(uri)
    gen.make_cooler(uri, case["table"], gen.prior_px(case["px"]), "symm", mode_="a" if grp != "/" else "w")
    old = cooler.Cooler(uri)
    len(old.pixels()), old.info, old.shape, old.bins()[:]
    gen.make_cooler(uri, case["table"], case["px"], "symm", mode_="a" if grp != "/" else "w")
    return old


def _kwargs(o, chunk):
    kw = dict(cis_only=o["mode"] == "cis", trans_only=o["mode"] == "trans", ignore_diags=o["diags"] if o["diags"] else False,
              mad_max=5 if o["mad"] else 0, min_nnz=o["min_nnz"], min_count=o["min_count"],
              rescale_marginals=o["rescale"], tol=1e-5, max_iters=o.get("max_iters", 120), chunksize=chunk if chunk else None)
    if o["black"]:
        kw["blacklist"] = np.array(o["black"], dtype=int)
    if o["x0"]:
        kw["x0"] = np.array([float("nan") if v < 0 else float(v) for v in o["x0"]])
    return kw


def _dyadic(x, bits=8):
    if np.isnan(x):
        return -1
    y = float(x) * (1 << bits)
    return int(y) if y == int(y) and 0 <= y < 2 ** 30 else -2


def _intlist(v):
    out = []
    for x in np.atleast_1d(v):
        if np.isnan(x):
            out.append(-1)
        elif float(x) == int(x) and abs(x) < 2 ** 30:
            out.append(int(x))
        else:
            out.append(-2)
    return out


@driver("bl.balance")
def bl_balance(case, ctx):
    import cooler
    import h5py
    path = _mk(case, ctx)
    fp, grp = gen.split_uri(path)
    o = case["o"]
    clr = _open(case, path)
    stored_same = True
    decoy_touched = False
    with warnings.catch_warnings():
        warnings.simplefilter("ignore")
        if case.get("via") == "cli":
            from click.testing import CliRunner
            from cooler.cli import cli
            args = ["balance", path, "--ignore-diags", str(o["diags"]), "--mad-max", str(5 if o["mad"] else 0),
                    "--min-nnz", str(o["min_nnz"]), "--min-count", str(o["min_count"]), "--max-iters", str(o.get("max_iters", 120)), "--force"]
            if case["chunk"]:
                args += ["--chunksize", str(case["chunk"])]
            if case.get("nproc"):
                args += ["--nproc", str(case["nproc"])]          # (the command's default is 8 worker processes)
            if "ignore_dist" in case:
                args += ["--ignore-dist", str(case["ignore_dist"])]
            if o["mode"] == "cis":
                args.append("--cis-only")
            if o["mode"] == "trans":
                args.append("--trans-only")
            if o["black"]:
                bl = os.path.join(ctx.subdir(), "black.bed")
                with open(bl, "w") as f:
                    # with a header line: the CLI guesses with csv.Sniffer whether there is one, and the guess is only
                    # reliable when there is (string labels over numeric columns)
                    f.write("chrom\tstart\tend\n")
                    for b in o["black"]:
                        c, s, e = case["table"][b]
                        f.write(f"{gen.CHROMNAMES[c]}\t{s}\t{e}\n")
                args += ["--blacklist", bl]
            res = CliRunner().invoke(cli, args)
            if res.exit_code != 0:
                raise res.exception if isinstance(res.exception, Exception) else RuntimeError(res.output[-300:])
            with h5py.File(fp, "r") as f:
                bias = f[grp]["bins/weight"][:]
                at = dict(f[grp]["bins/weight"].attrs)
                decoy_touched = grp != "/" and "weight" in f["bins"]
            stats = {"scale": at["scale"], "converged": at["converged"]}
        else:
            bias, stats = cooler.balance_cooler(clr, store=case.get("store", False), **_kwargs(o, case["chunk"]))
            if case.get("store"):
                with h5py.File(fp, "r") as f:
                    st = f[grp]["bins/weight"][:] if "weight" in f[grp]["bins"] else np.array([])
                    decoy_touched = grp != "/" and "weight" in f["bins"]
                stored_same = bool(np.array_equal(st, bias, equal_nan=True))
    return {"nan": [bool(x) for x in np.isnan(bias)],
            "finite_pos": [bool(np.isfinite(x) and x > 0) for x in bias],
            "w": [_dyadic(x) for x in bias], "scale": _intlist(stats["scale"]),
            "converged": [bool(x) for x in np.atleast_1d(stats["converged"])], "stored_same": stored_same and not decoy_touched}


def _filters(o):
    from cooler._balance import _zero_diags, _zero_trans
    f = []
    if o["mode"] == "cis":
        f.append(_zero_trans)
    if o["diags"]:
        f.append(partial(_zero_diags, o["diags"]))
    return f


class RecordingMap:
    """A map() that evaluates the chunk function in a chosen completion order and yields results in that order."""

    def __init__(self, kind, seed=0, pool=None):
        self.kind, self.rng, self.pool = kind, random.Random(seed), pool
        self.calls = []          # one entry per invocation: list of keys in dispatch order
        self.results = []        # (key, result) of the LAST invocation in completion order

    def __call__(self, fn, keys):
        keys = [tuple(int(x) for x in k) for k in keys]
        self.calls.append(keys)
        self.results = []
        if self.kind == "seq":
            order = list(range(len(keys)))
        elif self.kind == "reversed":
            order = list(range(len(keys)))[::-1]
        elif self.kind == "perm":
            order = list(range(len(keys)))
            self.rng.shuffle(order)
        elif self.kind in ("pool.map", "pool.imap", "pool.imap_unordered"):
            def keyed(k, fn=fn):
                return k, fn(k)
            it = getattr(self.pool, self.kind.split(".")[1])(keyed, keys)
            for k, res in it:
                self.results.append((k, res))
                yield res
            return
        else:
            raise ValueError(self.kind)
        for i in order:                       # lazy: one chunk at a time, in completion order
            res = fn(keys[i])
            self.results.append((keys[i], res))
            yield res


@driver("bl.pipeline")
def bl_pipeline(case, ctx):
    from operator import add

    import cooler
    from cooler._balance import _init, _marginalize
    from cooler.parallel import split
    path = _mk(case, ctx)
    clr = _open(case, path)
    n = len(case["table"])
    rm = RecordingMap(case["map"], case["seed"])
    if case["default_spans"]:
        dp = split(clr, map=rm, chunksize=case["chunk"])
    else:
        nnz = len(case["px"])
        edges = np.arange(0, nnz + case["chunk"], case["chunk"])
        dp = split(clr, map=rm, spans=list(zip(edges[:-1], edges[1:])))
    pl = dp.prepare(_init).pipe(_filters(case["o"])).pipe(_marginalize)
    total = pl.reduce(add, np.zeros(n))
    first = list(rm.results)
    # repeated runs: the SAME pipeline once more, and a second branch off the same split (pixel records per span)
    total2 = pl.reduce(add, np.zeros(n))
    seen = dp.pipe(lambda chunk, data=None: int(len(chunk["pixels"]["bin1_id"]))).gather()
    return {"keys": [list(k) for k in rm.calls[0]] if rm.calls else [],
            "results": [{"key": list(k), "partial": project.ints(r)} for k, r in first],
            "total": project.ints(total), "total2": project.ints(total2), "branch_seen": int(sum(seen))}


@driver("bl.schedules")
def bl_schedules(case, ctx):
    import cooler
    path = _mk(case, ctx)
    clr = _open(case, path)
    o = case["o"]
    nnz = len(case["px"])
    runs = []
    pool = None
    if case.get("prior"):
        # the reference run: the same content at a path this process has never used
        fresh = cooler.Cooler(gen.place(ctx.path(), case["table"], case["px"], "symm"))
        with warnings.catch_warnings():
            warnings.simplefilter("ignore")
            bias, stats = cooler.balance_cooler(fresh, **_kwargs(o, 0))
        runs.append({"chunk": 0, "map": "fresh-path", "nan": [bool(x) for x in np.isnan(bias)],
                     "q": [-1 if np.isnan(x) else min(1 << 30, int(round(float(x) * (1 << 20)))) for x in bias],
                     "converged": [bool(x) for x in np.atleast_1d(stats["converged"])], "keysets": []})
    try:
        for chunk, kind in case["runs"]:
            if kind.startswith("cli."):
                # the command line with that many worker processes: the stored weights are what is compared
                import h5py
                from click.testing import CliRunner
                from cooler.cli import cli
                args = ["balance", path, "--force", "--nproc", kind[4:], "--ignore-diags", str(o["diags"]),
                        "--mad-max", str(5 if o["mad"] else 0), "--min-nnz", str(o["min_nnz"]), "--min-count", str(o["min_count"]),
                        "--max-iters", "120", "--tol", "1e-5", "--convergence-policy", "store_final"]
                args += ["--chunksize", str(chunk)] if chunk else []
                args += ["--cis-only"] if o["mode"] == "cis" else ["--trans-only"] if o["mode"] == "trans" else []
                res = CliRunner().invoke(cli, args)
                if res.exit_code != 0:
                    raise res.exception if isinstance(res.exception, Exception) else RuntimeError(res.output[-300:])
                fp, grp = gen.split_uri(path)
                with h5py.File(fp, "r") as f:
                    bias = f[grp]["bins/weight"][:]
                    conv = f[grp]["bins/weight"].attrs["converged"]
                runs.append({"chunk": chunk, "map": kind, "nan": [bool(x) for x in np.isnan(bias)],
                             "q": [-1 if np.isnan(x) else min(1 << 30, int(round(float(x) * (1 << 20)))) for x in bias],
                             "converged": [bool(x) for x in np.atleast_1d(conv)], "keysets": []})
                continue
            if kind.startswith("pool") and pool is None:
                import multiprocess as mp
                pool = mp.Pool(case.get("workers", 2))
            rm = RecordingMap(kind, case["seed"] + len(runs), pool)
            with warnings.catch_warnings():
                warnings.simplefilter("ignore")
                bias, stats = cooler.balance_cooler(clr, map=rm, **_kwargs(o, chunk))
            seen, keysets = set(), []
            for keys in rm.calls:
                t = tuple(keys)
                if t in seen or not keys:
                    continue
                seen.add(t)
                lo, hi = (0, nnz) if o["mode"] != "cis" or keys[0][0] == 0 and min(keys[-1][1], nnz) == nnz \
                    else (keys[0][0], min(keys[-1][1], nnz))
                keysets.append({"keys": [list(k) for k in keys], "lo": lo, "hi": hi})
            runs.append({"chunk": chunk, "map": kind, "nan": [bool(x) for x in np.isnan(bias)],
                         "q": [-1 if np.isnan(x) else min(1 << 30, int(round(float(x) * (1 << 20)))) for x in bias],   # capped: TLC integers are 32-bit
                         "converged": [bool(x) for x in np.atleast_1d(stats["converged"])], "keysets": keysets})
    finally:
        if pool is not None:
            pool.terminate()
    return {"runs": runs}
