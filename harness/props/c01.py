"""C01 - create-then-read round trip returns exactly the matrix that was stored."""
from __future__ import annotations

import random

from .. import gen
from ..core import Run, run_cases
from ..project import canon_json
from . import coll_drivers  # noqa: F401

TRACE = "CollectionTrace"

METAS = [{}, {"a": 1}, {"big": [2 ** 53, 2 ** 53 + 1, -(2 ** 60), 2 ** 63 - 1], "nested": {"id": 9007199254740993}, "f": 1e300}, {"lab": "x", "n": [1, 2, 3], "nested": {"k": None, "t": True, "f": 1.5}},
         {"unicode": "café 中", "empty": [], "s": "with \"quotes\" and \\ backslash"},
         {"list": [{"a": [1, [2, [3]]]}, "z", 0, -1, 1e3], "big": 2 ** 40}, {"protocol": "dilution", "enzyme": "MboI", "cell-type": "GM12878"},
         # JSON documents that are not objects, and the "falsy" ones among them
         [], [1, "two"], 0, False, ""]
ASSEMBLIES = ["hg19", "mm10", "T2T-CHM13v2.0", "my assembly", "dm6_r6.40", ""]


def compositions_with_empty(total, rng):
    """A random split of `total` records into 1..4 chunks, empty chunks allowed."""
    k = rng.randint(1, 4)
    cuts = sorted(rng.randint(0, total) for _ in range(k - 1))
    edges = [0, *cuts, total]
    return [b - a for a, b in zip(edges[:-1], edges[1:])]


def addcols(px, ncols, rng):
    return [[p[0], p[1], p[2]] + [rng.randint(0, 5) for _ in range(ncols - 1)] for p in px]


def mk(rng, table, mode, px, k):
    f = gen.feat(0, k)                        # independent feature choices per case (see gen.feat)
    cols = [["count"], ["count"], ["count", "x"], ["count", "x", "y"]][f("cols", 4)]
    px = addcols(px, len(cols), rng)
    forms = ["frame", "iter", "dict", "iter_dict", "frame_shuffled", "list", "iter_unsorted", "iter_dict_unsorted", "dask"] + \
        (["array"] if mode == "symm" and cols == ["count"] else ["iter"])
    form = forms[f("form", len(forms))]
    mi = f("meta", len(METAS) + 1)
    dts = [0, 1, 2] + ([3] if "x" in cols else []) + ([4] if "y" in cols else [])
    case = {"table": table, "mode": mode, "cols": cols, "px": px, "form": form,
            "chunks": compositions_with_empty(len(px), rng), "chunksize": rng.choice([1, 2, 3, 100]),
            "shuffle_seed": k, "meta_given": mi < len(METAS), "meta": canon_json(METAS[mi] if mi < len(METAS) else {}),
            "assembly_given": f("asm", 3) != 0, "assembly": ASSEMBLIES[f("asmname", len(ASSEMBLIES))] if f("asm", 3) != 0 else "unknown",
            "h5": f("h5", len(coll_drivers.H5OPTS)), "dt": dts[f("dt", len(dts))],
            "open": ["path", "uri", "handle"][f("open", 3)], "group": "/" if f("group", 5) else "/sub/grp",
            "scale": 4 if f("scale", 7) == 3 else 1,           # float64 value columns holding multiples of 0.25
            # row labels of the frames handed in, dtype of their ID columns, which per-chunk checks accompany ensure_sorted
            "labels": ["default", "perm", "default", "offset"][f("labels", 4)] if form != "array" else "default",
            "id_dtype": ["int64", "int32", "int64", "uint8", "int16", "int8"][f("iddt", 6)],
            "checks": [[True, True, True], [False, False, False], [True, False, False], [False, False, True]][f("checks", 4)]}
    return "cr.roundtrip", case


def cases(tier, seed):
    rng = random.Random(seed)
    k = 0
    T = gen.REPRESENTATIVE_TABLES
    # exhaustive stores on the 3-bin tables
    for tname in ("one_fixed", "onebin_chroms"):
        table = T[tname]
        for mode, vals in (("symm", (1, 2)), ("square", (1,))):
            stores = list(gen.all_stores(3, mode, vals))
            if tier == "quick":
                stores = rng.sample(stores, 230)
            for px in stores:
                yield mk(rng, table, mode, px, k)
                k += 1
    # every table shape with random stores (and the always-interesting empty / diagonal / dense ones)
    for tname, table in T.items():
        n = len(table)
        for mode in ("symm", "square"):
            ss = gen.structured_stores(n, mode) + [gen.random_store(rng, n, mode, maxval=9) for _ in range(12 if tier == "quick" else 150)]
            for px in ss:
                yield mk(rng, table, mode, px, k)
                k += 1
    # the smallest matrices: one bin in all, one bin per chromosome
    for table in ([[0, 0, 5]], [[0, 0, 5], [1, 0, 3]], [[0, 0, 2], [0, 2, 3]]):
        n = len(table)
        for mode in ("symm", "square"):
            for px in gen.all_stores(n, mode, (1, 2)) if n == 1 else list(gen.all_stores(n, mode, (1,)))[::2]:
                yield mk(rng, table, mode, px, k)
                k += 1
    # tables with exactly as many bins as a narrow STORED ID dtype can number (256 for uint8, 128 for int8), last bin occupied
    for nb, dt in ((256, 5), (128, 6), (256, 7), (200, 5)):
        table = gen.binnify([nb], 1)
        for mode in ("symm", "square"):
            px = sorted([[0, 1, 5], [3, nb - 1, 6], [nb - 1, nb - 1, 7], [nb - 2, nb - 1, 2]] + ([[nb - 1, 0, 3]] if mode == "square" else []))
            drv, case = mk(rng, table, mode, px, k)
            case.update({"form": "frame", "cols": ["count"], "px": [p[:3] for p in case["px"]], "dt": dt, "scale": 1,
                         "id_dtype": "int64", "labels": "default"})
            yield drv, case
            k += 1
    # more bins than a narrow ID dtype can multiply: records within the chunks unsorted, create() sorts them
    wide = gen.binnify([12, 8], 1)
    for j in range(12 if tier == "quick" else 120):
        mode = "symm" if j % 2 else "square"
        drv, case = mk(rng, wide, mode, gen.random_store(rng, len(wide), mode, density=0.15, maxval=9), k)
        case.update({"form": ["iter_unsorted", "iter_dict_unsorted", "frame_shuffled"][j % 3],
                     "id_dtype": ["uint8", "int8", "int16", "int32"][j % 4], "scale": 1, "cols": ["count"],
                     "px": [p[:3] for p in case["px"]], "dt": 0})
        yield drv, case
        k += 1
    if tier == "thorough":
        for _ in range(1500):
            lens = [rng.randint(1, 9) for _ in range(rng.randint(1, 4))]
            table = gen.binnify(lens, rng.randint(1, 4)) if rng.random() < 0.5 else \
                gen.table_from_edges([sorted({0, ln, *[rng.randint(1, ln) for _ in range(rng.randint(0, 3))]}) for ln in lens])
            n = len(table)
            if n > 12:
                continue
            mode = rng.choice(["symm", "square"])
            yield mk(rng, table, mode, gen.random_store(rng, n, mode, maxval=1000), k)
            k += 1


def run(tier, seed, only_case=None):
    r = Run("C01", tier, seed, replay=only_case is not None)
    r.rule = ("one case = (bin table, sorted records with 1-3 value columns, storage mode, input form in {frame, shuffled frame, dict, "
              "iterator/list of frame or dict chunks with random chunk sizes incl. empty chunks, dense-array loader}, value dtypes, HDF5 "
              "filter options, JSON metadata document, assembly, destination root or nested group, read back by path/URI/handle). "
              "Stores: sampled/exhaustive on 3-bin tables, structured + random on six table shapes. non-trivial = >= 1 pixel.")
    r.assumptions = ["assembly names are not JSON literals (the metadata reader JSON-decodes every string attribute)",
                     "values representable in the column dtype",
                     "HDF5 filter options are content-neutral in the specification"]
    if only_case is None:
        r.model_check("MC_Index", "MC_Index.cfg")
        cs = cases(tier, seed)
    else:
        cs = [only_case]
    for drv, case, obs in run_cases(cs, chunk=8):
        r.record(TRACE, drv, case, obs, len(case["px"]) > 0)
    r.exhaustive = False
    r.validate(TRACE)
    return r.finish()
