"""C02 - every cooler any operation writes is a structurally valid CSR collection."""
from __future__ import annotations

import itertools
import random

from .. import gen
from ..core import Run, run_cases
from . import c01, coll_drivers  # noqa: F401

TRACE = "CollectionTrace"


def rsplit(total, k, rng):
    cuts = sorted(rng.randint(0, total) for _ in range(k - 1))
    e = [0, *cuts, total]
    return [b - a for a, b in zip(e[:-1], e[1:])]


def cases(tier, seed):
    rng = random.Random(seed)
    # (1) function level: rlencode on every array (length <= 5 over 3 values) x block sizes; index builders
    maxlen = 5 if tier == "quick" else 7
    for n in range(0, maxlen + 1):
        for a in itertools.product(range(3), repeat=n):
            for chunk in ([0, 1, 2, 3, n + 1] if tier == "quick" else [0, *range(1, n + 2)]):
                yield "idx.rle", {"a": list(a), "chunk": chunk}
            if list(a) == sorted(a):
                yield "idx.index", {"keys": list(a), "n": 3, "which": "pixels"}
                yield "idx.index", {"keys": list(a), "n": 4, "which": "bins"}
    for _ in range(200 if tier == "quick" else 3000):
        n = rng.randint(1, 12)
        a = [rng.randint(0, 4) for _ in range(rng.randint(0, 14))]
        yield "idx.rle", {"a": a, "chunk": rng.randint(1, 6)}
        yield "idx.index", {"keys": sorted(rng.randint(0, n - 1) for _ in range(rng.randint(0, 14))), "n": n,
                            "which": rng.choice(["pixels", "bins"])}
    # (2) creation in every input form (shares the C01 driver; the raw projection is validated here)
    cs = list(c01.cases("quick", seed + 1))
    if tier == "quick":
        # a sample, plus every case of the special families (wide tables with narrow ID dtypes, chunks that create() must sort)
        special = [c for c in cs if len(c[1]["table"]) >= 16 or c[1]["form"] in ("iter_unsorted", "iter_dict_unsorted")]
        rest = [c for c in cs if c not in special]
        cs = special + rng.sample(rest, 250)
    for c in cs:
        yield c
    # (3) histories of producers
    T = gen.REPRESENTATIVE_TABLES
    nh = 60 if tier == "quick" else 900
    names = list(T)
    for h in range(nh):
        F_h = gen.feat(101, h)          # independent feature choices per case (gen.feat)
        tname = names[F_h("len_names@45", len(names))]
        table = T[tname]
        n = len(table)
        mode = "symm" if F_h("m3@48", 3) else "square"
        px1 = gen.random_store(rng, n, mode, maxval=4)
        px2 = gen.random_store(rng, n, mode, maxval=4) if F_h("m5@50", 5) else []
        total = len(px1) + len(px2)
        nuc = rng.randint(1, 5)
        zoom = []
        if tname in ("one_fixed", "fixed_short", "two_fixed"):
            zoom = [2, 4, 8] if F_h("m2@55", 2) else [4, 2, 6]
        yield "csr.colls", {"producer": "history", "table": table, "mode": mode, "px1": px1, "px2": px2,
                            "chunks2": rsplit(len(px2), rng.randint(1, 3), rng),
                            "mergebuf": rng.choice([1, 2, 3, 5, 10 ** 6]), "k": rng.choice([2, 3, 5]),
                            "chunk": rng.choice([1, 2, 3, 10 ** 6]), "seed": h,
                            "uchunks": rsplit(total, nuc, rng), "max_merge": rng.choice([1, 2, 200]) if nuc >= 4 else 200,
                            "zoom": zoom, "expect": 8 + len(set(zoom)), "zoom_nested": F_h("zoomnested", 2) == 1}
    # (3b) producers on EMPTY inputs with a second value column
    for tname, bsz in (("one_fixed", 2), ("fixed_short", 2), ("two_fixed", 2), ("variable", 0), ("onebin_chroms", 0)):
        for mode in ("symm", "square"):
            yield "csr.colls", {"producer": "empties", "table": T[tname], "mode": mode, "fixed": bsz > 0, "binsize": bsz,
                                "mergebuf": rng.choice([1, 10 ** 6]), "k": 2, "chunk": rng.choice([1, 10 ** 6]),
                                "expect": 8 if bsz else 4}
    # (4) text loaders
    for h in range(24 if tier == "quick" else 300):
        F_h = gen.feat(102, h)          # independent feature choices per case (gen.feat)
        table = T[names[F_h("len_names@64", len(names))]]
        mode = "symm" if F_h("m2@65", 2) else "square"
        yield "csr.colls", {"producer": "load", "table": table, "mode": mode, "fmt": "coo" if F_h("m4@66", 4) < 2 else "bg2",
                            "px1": gen.random_store(rng, len(table), mode, maxval=5), "chunk": rng.choice([1, 2, 1000]),
                            "expect": 1}
    # (5) end to end across the 1 000 000-row block boundary of the index builder
    yield "csr.big", {"n": 1450, "step": 300007, "holes": False}
    if tier == "thorough":
        yield "csr.big", {"n": 1700, "step": 999999, "holes": True}
        yield "csr.big", {"n": 1450, "step": 250000, "holes": False, "then": "merge", "mergebuf": 400000}


def nontrivial(drv, case, obs):
    if drv == "idx.rle":
        return len(case["a"]) > 1
    if drv == "idx.index":
        return len(case["keys"]) > 0
    if drv == "csr.colls":
        return len(case.get("px1", [0])) > 0
    if drv == "cr.roundtrip":
        return len(case["px"]) > 0
    return True


def run(tier, seed, only_case=None):
    r = Run("C02", tier, seed, replay=only_case is not None)
    r.rule = ("idx.rle / idx.index: every array of length <= 5 (7) over 3 values x block sizes through util.rlencode, every sorted key "
              "column through index_pixels/index_bins; cr.roundtrip: creation in every input form; csr.colls: histories "
              "create -> append-create -> merge -> coarsen -> unordered ingestion -> zoomify -> single-cell file on six table "
              "shapes with random stores, chunk and buffer sizes, and `cooler load` (COO, BG2); csr.big: > 10^6 pixels fed in "
              "chunks that do not align with the 1 000 000-row block. Every collection written is projected raw (h5py) and "
              "each clause of CoolerData!ValidCSR is evaluated by TLC. non-trivial = non-empty input.")
    r.assumptions = ["the > 10^6-pixel case is validated through the run list of bin1_id (one numpy pass) rather than the raw column",
                     "integer-valued count columns"]
    if only_case is None:
        r.model_check("MC_Index", "MC_Index.cfg")
        cs = cases(tier, seed)
    else:
        cs = [only_case]
    ncoll = 0
    for drv, case, obs in run_cases(cs, chunk=6):
        ncoll += len(obs.get("colls", ())) + (1 if "raw" in obs else 0)
        r.record(TRACE, drv, case, obs, nontrivial(drv, case, obs))
    r.extra["collections_validated"] = ncoll
    r.exhaustive = False
    r.validate(TRACE)
    return r.finish()
