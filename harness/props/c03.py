"""C03 - a 2-D range query equals the same slice of the full matrix."""
from __future__ import annotations

import itertools
import random

from .. import gen
from ..core import Run
from . import rq_drivers  # noqa: F401  (registers drivers)

TRACE = "RangeQueryTrace"


def slice_keys(n):
    """All slice spellings with bounds in [-n, n] that denote a well-formed range, plus scalars."""
    def norm(x, d):
        return d if x is None else (x + n if x < 0 else x)
    spell = []
    for a in [None, *range(-n, n + 1)]:
        for b in [None, *range(-n, n + 1)]:
            if norm(a, 0) <= norm(b, n):
                spell.append({"kind": "slice", "a": [] if a is None else [a], "b": [] if b is None else [b]})
    for k in range(-n, n):
        F_k = gen.feat(101, k)          # independent feature choices per case (gen.feat)
        spell.append({"kind": "scalar", "a": [k], "b": []})
    return spell


AT = ["/resolutions/10", "/a/b"]      # nested locations (a decoy collection with other content sits at the file root)


def cases(tier, seed):
    rng = random.Random(seed)
    # (1) engines, exhaustive small scope: every store x every window x chunk sizes
    for mode, vals in (("symm", (1, 2)), ("square", (1,))):
        for px in gen.all_stores(3, mode, vals):
            nnz = len(px)
            for chunk in sorted({1, 2, nnz + 1}):
                yield "rq.engine", {"n": 3, "mode": mode, "px": px, "chunk": chunk}
    if tier == "thorough":
        for px in gen.all_stores(4, "symm", (1,)):
            for chunk in sorted({1, 3, len(px) + 1}):
                yield "rq.engine", {"n": 4, "mode": "symm", "px": px, "chunk": chunk}
        for n in (5, 6):
            for mode in ("symm", "square"):
                for px in gen.structured_stores(n, mode):
                    for chunk in (1, 2, 3, 5, len(px) + 1):
                        yield "rq.engine", {"n": n, "mode": mode, "px": px, "chunk": chunk}
    nrand = 150 if tier == "quick" else 3000
    for _ in range(nrand):
        n = rng.randint(4, 7 if tier == "quick" else 9)
        mode = rng.choice(["symm", "square"])
        px = gen.random_store(rng, n, mode)
        yield "rq.engine", {"n": n, "mode": mode, "px": px, "chunk": rng.choice([1, 2, 3, 5, len(px) + 1])}
    # (2) reader on every (box, span, reflect): binds Layer A's ReadSpan
    stores3 = list(gen.all_stores(3, "symm", (1, 2)))
    for px in rng.sample(stores3, 12 if tier == "quick" else 120):
        yield "rq.reader", {"n": 3, "mode": "symm", "px": px}
    # (3) public API on real files: all windows, three output forms, path / URI / handle
    sq3 = list(gen.all_stores(3, "square", (1,)))
    k = 30 if tier == "quick" else 400
    picks = [("symm", px) for px in rng.sample(stores3, k)] + [("square", px) for px in rng.sample(sq3, k)]
    if tier == "thorough":
        for n in (4, 5):
            for mode in ("symm", "square"):
                picks += [(mode, px) for px in gen.structured_stores(n, mode)]
                picks += [(mode, gen.random_store(rng, n, mode)) for _ in range(60)]
    for idx, (mode, px) in enumerate(picks):
        n = 1 + max([max(p[0], p[1]) for p in px] + [2])
        wins = list(gen.windows(n))
        chunk = [1, 2, 3, len(px) + 1][idx % 4]
        how = ["handle", "path", "uri"][idx % 3] if idx % 5 == 0 else "handle"
        for part in range(0, len(wins), 50):
            yield "rq.api", {"n": n, "mode": mode, "px": px, "chunk": chunk, "open": how, "wins": wins[part:part + 50],
                             **({"at": AT[idx % 2]} if idx % 4 == 1 else {}),
                             **({"scale": 4} if idx % 6 == 2 else {}),          # float64 counts (multiples of 1/4)
                             **({"prior": True} if idx % 5 == 3 else {})}       # the path held another collection before
    # API on tables with several chromosomes (index space is what matters; the table must not)
    for name, table in gen.REPRESENTATIVE_TABLES.items():
        n = len(table)
        for mode in ("symm", "square"):
            for _ in range(1 if tier == "quick" else 6):
                px = gen.random_store(rng, n, mode)
                wins = list(gen.windows(n))
                rng.shuffle(wins)
                yield "rq.api", {"n": n, "mode": mode, "px": px, "chunk": rng.choice([1, 2, 10 ** 7]),
                                 "open": rng.choice(["handle", "path", "uri"]), "wins": wins[:60], "table": table,
                                 **({"at": AT[n % 2]} if mode == "square" else {}), "prior": n % 2 == 1,
                                 "int_chroms": mode == "symm" and len(name) % 2 == 0}    # bins/chrom as plain integer IDs
    # (4) slice spellings
    for n in ((3,) if tier == "quick" else (3, 4)):
        keys = slice_keys(n)
        pairs = list(itertools.product(keys, keys))
        rng.shuffle(pairs)
        if tier == "quick":
            pairs = pairs[:600]
        for mode in ("symm", "square"):
            px = gen.random_store(rng, n, mode, density=0.8)
            for part in range(0, len(pairs), 100):
                yield "rq.slice", {"n": n, "mode": mode, "px": px, "chunk": rng.choice([1, 10 ** 7]),
                                   "open": "handle", "keys": [list(p) for p in pairs[part:part + 100]]}


    # bounds beyond the table and reversed ranges (array semantics: clipping, empty) - observed separately, known finding F29
    n = 4
    S = lambda a, b: {"kind": "slice", "a": [] if a is None else [a], "b": [] if b is None else [b]}
    oob = [S(-n - 3, 2), S(1, n + 5), S(None, -n - 2), S(n + 4, None), S(-n - 6, -n - 1), S(3, 1), S(-1, 1), S(n + 1, n + 3)]
    for mode in ("symm", "square"):
        px = gen.random_store(rng, n, mode, density=0.8)
        yield "rq.slice", {"n": n, "mode": mode, "px": px, "chunk": 10 ** 7, "open": "handle", "keys": [[S(0, 2), S(1, None)]],
                           "oob_keys": [[a, b] for a in oob for b in (S(None, None), S(1, 3), oob[1])]}
    # indexes given as NumPy scalars of a narrow dtype at the top of its range (a matrix with more than 127 bins)
    n = 130
    for mode in ("symm", "square"):
        px = sorted([i, j, 1 + (i * 7 + j) % 5] for i in range(n) for j in range(n)
                    if (mode == "square" or i <= j) and (abs(i - j) < 2 or (i * 31 + j * 17) % 97 == 0))
        ks = [{"kind": "scalar", "a": [127], "b": [], "np": "int8"}, {"kind": "scalar", "a": [-1], "b": [], "np": "int8"},
              {"kind": "slice", "a": [-4], "b": [], "np": "int8"}, {"kind": "slice", "a": [120], "b": [127], "np": "int8"},
              {"kind": "scalar", "a": [129], "b": [], "np": "uint8"}, {"kind": "slice", "a": [125], "b": [-1], "np": "int16"},
              {"kind": "scalar", "a": [126], "b": [], "np": "int64"}]
        yield "rq.slice", {"n": n, "mode": mode, "px": px, "chunk": 10 ** 7, "open": "handle",
                           "keys": [[a, b] for a in ks for b in ks[:5]]}


def nontrivial(drv, case, obs):
    return len(case["px"]) > 0


F29_KEY = "C03:F29:slice bounds beyond the table and reversed ranges are not resolved as for arrays"


def keyfn(ev, clauses):
    if clauses == ["outOfRangeBoundsAsArrays"]:
        return F29_KEY
    import json
    return f"{ev['drv']}:{','.join(clauses)}:{json.dumps(ev['case'], sort_keys=True)}"


def run(tier, seed, only_case=None):
    r = Run("C03", tier, seed, replay=only_case is not None)
    r.rule = ("cases = (store, chunk size[, windows]) tuples: every store on 3 bins (values<=2 symm, <=1 square) x every "
              "window x chunk sizes through both engines; sampled stores through the public API (dense/sparse/pixels, "
              "path/URI/handle) and slice spellings; distinct = distinct (driver, case) JSON; non-trivial = store has "
              ">= 1 pixel. Each event holds the results for many windows (see per_driver and queries).")
    r.assumptions = ["the row index handed to the engines is valid (property C02)",
                     "pydata/sparse output not covered (package absent)"]
    if only_case is None:
        r.model_check("MC_RangeQuery", "MC_RangeQuery_symm3.cfg")
        r.model_check("MC_RangeQuery", "MC_RangeQuery_square3.cfg")
        if tier == "thorough":
            r.model_check("MC_RangeQuery", "MC_RangeQuery_symm4.cfg")
        cs = cases(tier, seed)
    else:
        cs = [only_case]
    nq = 0
    from ..core import run_cases
    for drv, case, obs in run_cases(cs, chunk=8):
        nq += len(obs.get("q", ()))
        r.record(TRACE, drv, case, obs, nontrivial(drv, case, obs))
    r.extra["queries"] = nq
    r.exhaustive = False
    r.validate(TRACE, keyfn=keyfn)
    return r.finish()
