"""C04 - genomic ranges map to exactly the bins that cover them."""
from __future__ import annotations

import random

from .. import gen
from ..core import Run, run_cases
from . import ext_drivers  # noqa: F401

TRACE = "ExtentTrace"


def dense_px(n, mode="symm"):
    return [[i, j, 1 + i * n + j] for (i, j) in gen.positions(n, mode)]


def queries(table, rng, limit=None):
    lens = gen.chrom_lens(table)
    regs = []
    for c, ln in enumerate(lens):
        for s in range(ln + 1):
            for e in range(s, ln + 1):
                form = "tuple"
                if s > 0 or e < ln:
                    form = rng.choice(["tuple", "tuple", "ucsc", "ucsc_commas"])
                regs.append({"c": c, "s": [s], "e": [e], "form": form})
        # whole chromosome and open-ended spellings
        regs.append({"c": c, "s": [], "e": [], "form": "name"})
        regs.append({"c": c, "s": [], "e": [], "form": "tuple"})
        for s in range(ln + 1):
            regs.append({"c": c, "s": [s], "e": [], "form": rng.choice(["tuple", "ucsc"])})
        regs.append({"c": c, "s": [], "e": [rng.randint(0, ln)], "form": "tuple"})
    if limit and len(regs) > limit:
        regs = rng.sample(regs, limit)
    qs = []
    for k, r in enumerate(regs):
        F_k = gen.feat(101, k)          # independent feature choices per case (gen.feat)
        r2 = regs[(k * 7 + 3) % len(regs)]
        qs.append({"r": r, "r2": r2, "single": F_k("m5@37", 5) == 0})
    return qs


def cases(tier, seed):
    rng = random.Random(seed)
    if tier == "quick":
        tables = list(gen.all_tables(2, 4))
        # larger widths: fixed tables with short last bins, and the long-last-bin / one-bin shapes
        tables += [gen.binnify([7, 5], 3), gen.binnify([6, 6, 2], 2), gen.binnify([9], 4)]
        # widths whose reciprocal is not exact in binary floating point
        tables += [gen.binnify([490, 343], 49), gen.binnify([721], 103), gen.binnify([980, 196], 98)]
        tables += list(gen.REPRESENTATIVE_TABLES.values())
    else:
        tables = list(gen.all_tables(2, 5))
        t3 = list(gen.all_tables(3, 4))
        tables += rng.sample(t3, 1500)
        for b in (2, 3, 4, 5):
            for lens in ([7, 5], [6, 6, 2], [9], [10, 1, 3], [5, 5]):
                tables.append(gen.binnify(lens, b))
        tables += list(gen.REPRESENTATIVE_TABLES.values())
    nth = 0
    for k, table in enumerate(tables):
        F_k = gen.feat(102, k)          # independent feature choices per case (gen.feat)
        n = len(table)
        mode = "symm" if F_k("m4@61", 4) else "square"
        qs = queries(table, rng, limit=60 if tier == "quick" else 120)
        for part in range(0, len(qs), 30):
            nth += 1
            yield "ext.cooler", {"table": table, "mode": mode, "px": dense_px(n, mode), "qs": qs[part:part + 30],
                                 **({"at": ["/resolutions/10", "/a/b"][nth % 2], "open": ["handle", "uri"][nth % 3 == 0]}
                                    if nth % 4 == 1 else {}), "prior": nth % 5 == 2}
    # refusals
    for table in list(gen.REPRESENTATIVE_TABLES.values()):
        lens = gen.chrom_lens(table)
        regs = []
        for c, ln in enumerate(lens):
            nm = gen.CHROMNAMES[c]
            regs += [[nm, 0, ln + 1], [nm, ln, ln + 2], [nm, 2, 1], [nm, -1, 1], f"{nm}:0-{ln + 1}", f"{nm}:2-1"]
        regs += [["zz", 0, 1], "zz", "zz:0-1"]
        yield "ext.refuse", {"table": table, "mode": "symm", "px": dense_px(len(table)), "regs": regs}


def run(tier, seed, only_case=None):
    r = Run("C04", tier, seed, replay=only_case is not None)
    r.rule = ("one case = (bin table, queries): quick = every bin table with <= 2 chromosomes of length <= 4 (all compositions: "
              "uniform, short/long last bin, one-bin chromosomes, variable) plus wider fixed tables; every (chrom,start,end) "
              "with 0<=start<=end<=length as tuple / UCSC string / bare name / open-ended; each query records extent, offset, "
              "bins.fetch, pixels.fetch, two-region and one-region matrix.fetch on a real cooler with distinct pixel values. "
              "non-trivial = table has >= 2 bins.")
    r.assumptions = ["range queries by index are correct (C03)", "created coolers hold the given table (C01)"]
    if only_case is None:
        r.model_check("MC_Extent", "MC_Extent_quick.cfg" if tier == "quick" else "MC_Extent_thorough.cfg")
        cs = cases(tier, seed)
    else:
        cs = [only_case]
    nq = 0
    for drv, case, obs in run_cases(cs, chunk=4):
        nq += len(obs.get("q", ()))
        r.record(TRACE, drv, case, obs, len(case["table"]) >= 2)
    r.extra["queries"] = nq
    r.exhaustive = False
    r.validate(TRACE)
    return r.finish()
