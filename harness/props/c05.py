"""C05 - each valid input record is counted once, in the pixel that contains it."""
from __future__ import annotations

import random

from .. import gen
from ..core import Run, run_cases
from . import ingest_drivers  # noqa: F401

TRACE = "IngestTrace"


def interesting_positions(table, c):
    """0-based positions on every bin edge, next to it, at 0 and at the chromosome end."""
    ln = gen.chrom_lens(table)[c]
    edges = sorted({s for cc, s, e in table if cc == c} | {ln})
    pos = set()
    for x in edges:
        pos |= {x - 1, x, x + 1}
    return sorted(p for p in pos if -1 <= p <= ln + 1)


def mk_records(rng, table, n, allow_bad, unknown_rate=0.1):
    nch = 1 + max(t[0] for t in table)
    lens = gen.chrom_lens(table)
    recs = []
    for _ in range(n):
        def side():
            if rng.random() < unknown_rate:
                return -1, rng.randint(0, 9)
            c = rng.randrange(nch)
            pos = interesting_positions(table, c)
            if not allow_bad:
                pos = [p for p in pos if 0 <= p < lens[c]]
            return c, rng.choice(pos)
        c1, p1 = side()
        c2, p2 = side()
        recs.append([c1, p1, c2, p2])
    return recs


def cases(tier, seed):
    rng = random.Random(seed)
    tables = list(gen.REPRESENTATIVE_TABLES.values()) + [gen.binnify([6, 4], 2), gen.binnify([4, 4], 4), gen.binnify([5], 1),
                                                          gen.table_from_edges([[0, 2, 3, 7], [0, 1, 5]]),
                                                          # a width whose reciprocal is not exact in binary floating point
                                                          gen.binnify([490, 196], 49), gen.binnify([515], 103)]
    n1 = 700 if tier == "quick" else 12000
    for h in range(n1):
        f = gen.feat(1, h)                                                   # independent feature choices (see gen.feat)
        table = tables[f("table", len(tables))]
        one_based = f("one_based", 2) == 0
        tril = ["reflect", "drop", "none"][f("tril", 3)]
        bad = f("bad", 4) == 3
        many = f("many", 6) == 1 and not bad                                       # enough chunks for the two-pass merge
        recs = mk_records(rng, table, (rng.randint(1, 8) if not many else rng.randint(9, 16)) if not bad else rng.randint(1, 3),
                          allow_bad=bad)
        if one_based:
            recs = [[r[0], r[1] + 1, r[2], r[3] + 1] for r in recs]          # positions as written in a 1-based file
        via = "api" if f("via", 5) else "cload"
        yield "ig.records", {"table": table, "recs": recs, "one_based": one_based, "tril": tril, "valued": False,
                             "via": via, "chunk": rng.choice([1, 2, 3, 1000]) if not many else rng.choice([1, 2]),
                             "header": f("header", 10) == 0, **({"max_merge": rng.choice([2, 3, 4])} if many else {}),
                             "labels": ["default", "offset", "perm"][f("labels", 3)], "pos_dtype": ["int64", "int32"][f("posdt", 2)],
                             "names": ["usual", "unsorted", "numeric"][f("names", 3)], "chrom_cat": ["no", "no", "lexical"][f("chromcat", 3)],
                             "chrom_ids": ["names", "names", "integer"][f("chromids", 3)], "prior_sibling": f("sibling", 3) == 1}
    # single records on every interesting position (both anchors), every option: the boundary cases of the property
    for table in tables[:6] if tier == "quick" else tables:
        nch = 1 + max(t[0] for t in table)
        for c in range(nch):
            for p in interesting_positions(table, c):
                for one_based in (False, True):
                    rec = [c, p + (1 if one_based else 0), 0, 0 + (1 if one_based else 0)]
                    yield "ig.records", {"table": table, "recs": [rec, [0, 1 if one_based else 0, 0, 1 if one_based else 0]],
                                         "one_based": one_based, "tril": "reflect", "valued": False, "via": "api",
                                         "chunk": 1000, "header": False}
    # bedGraph-2D (valued, anchor = start) and COO
    for h in range(260 if tier == "quick" else 4000):
        f = gen.feat(2, h)
        table = tables[f("table", len(tables))]
        one_based = f("one_based", 2) == 1
        tril = ["reflect", "drop", "none"][f("tril", 3)]
        bad = f("bad", 5) == 4
        via = "load" if f("via", 3) == 0 else "api"
        recs = [r + [rng.randint(1, 5)] for r in mk_records(rng, table, rng.randint(1, 7), allow_bad=bad)]
        if via == "load":
            # a bedGraph-2D FILE lists every pixel once (cooler load refuses a pixel repeated within a chunk): anchors are
            # bin starts and no two records denote the same pixel after mirroring
            starts = {}
            clen = {}
            for cc, st, en in table:
                starts.setdefault(cc, []).append(st)
                clen[cc] = en
            seen, uniq = set(), []
            for r in recs:
                if r[0] >= 0 and r[2] >= 0 and 0 <= r[1] < clen[r[0]] and 0 <= r[3] < clen[r[2]]:
                    r = [r[0], max(x for x in starts[r[0]] if x <= r[1]), r[2], max(x for x in starts[r[2]] if x <= r[3]), r[4]]
                key = tuple(sorted([(r[0], r[1]), (r[2], r[3])])) if tril != "none" else (r[0], r[1], r[2], r[3])
                if key not in seen:
                    seen.add(key)
                    uniq.append(r)
            recs = uniq
        if one_based:
            recs = [[r[0], r[1] + 1, r[2], r[3] + 1, r[4]] for r in recs]
        yield "ig.bg2", {"table": table, "recs": recs, "one_based": one_based, "tril": tril, "valued": True,
                         "via": via, "chunk": rng.choice([1, 2, 3, 4, 1000]), "mergebuf": rng.choice([0, 0, 1, 2]),
                         "prior_sibling": f("sibling", 3) == 1, "names": ["usual", "unsorted", "numeric"][f("names", 3)]}
    for h in range(200 if tier == "quick" else 3000):
        f = gen.feat(3, h)
        table = tables[f("table", len(tables))]
        n = len(table)
        one_based = f("one_based", 2) == 1
        tril = ["reflect", "drop", "none"][f("tril", 3)]
        bad = f("bad", 6) == 5
        lo, hi = (-1, n) if bad else (0, n - 1)
        via = "load" if f("via", 3) == 0 else "api"
        px = [[rng.randint(lo, hi), rng.randint(lo, hi), rng.randint(1, 5)] for _ in range(rng.randint(1, 7) if f("many", 4) else rng.randint(8, 14))]
        if via == "load":                      # a COO file lists every pixel once
            seen, uniq = set(), []
            for p in px:
                key = tuple(sorted(p[:2])) if tril != "none" else tuple(p[:2])
                if key not in seen:
                    seen.add(key)
                    uniq.append(p)
            px = uniq
        if one_based:
            px = [[p[0] + 1, p[1] + 1, p[2]] for p in px]
        case = {"table": table, "px": px, "one_based": one_based, "tril": tril,
                "via": via, "chunk": rng.choice([1, 2, 3, 4, 6, 1000]), "mergebuf": rng.choice([0, 0, 1, 2, 3]),
                "prior_sibling": f("sibling", 3) == 1}
        if via == "load" and tril == "drop" and not bad:
            # a file listing both triangles in no particular order, read in chunks of several records, merged in several epochs
            pos = [(i, j) for i in range(n) for j in range(n)]
            rng.shuffle(pos)
            case["px"] = [[i + one_based, j + one_based, rng.randint(1, 5)] for i, j in pos[:rng.randint(8, min(16, len(pos)))]] \
                if len(pos) >= 8 else case["px"]
            seen = set()
            case["px"] = [p for p in case["px"] if not (tuple(sorted(p[:2])) in seen or seen.add(tuple(sorted(p[:2]))))]
            case.update({"chunk": rng.choice([3, 4, 5]), "mergebuf": rng.choice([1, 2])})
        yield "ig.coo", case
    # tabix-indexed loader: sorted, upper-triangle, 1-based pairs
    ttables = tables + [gen.binnify([12, 7], 1), gen.binnify([20], 2), gen.table_from_edges([[0, 1, 3, 4, 8, 9, 11, 12], [0, 2, 3, 6]])]
    for h in range(60 if tier == "quick" else 600):
        f = gen.feat(4, h)
        table = ttables[f("table", len(ttables))]
        bad = f("bad", 6) == 5
        recs = mk_records(rng, table, rng.randint(1, 8) if f("few", 2) else rng.randint(8, 30), allow_bad=False, unknown_rate=0.0)
        recs = [r if (r[0], r[1]) <= (r[2], r[3]) else [r[2], r[3], r[0], r[1]] for r in recs]
        if f("unknown_mates", 2) == 0:
            # mates on chromosomes that are not in the bin table, several in a row (they must simply be dropped)
            extra = []
            for r in rng.sample(recs, min(len(recs), 3)):
                extra += [[r[0], r[1], -1, rng.randint(0, 9)] for _ in range(rng.randint(1, 3))]
            recs = recs + extra
        if bad:
            lens = gen.chrom_lens(table)
            k = max(i for i, r in enumerate(recs) if r[2] >= 0)
            r = recs[k]
            recs[k] = [r[0], r[1], r[2], lens[r[2]] + rng.choice([0, 1])]           # pos2 at / beyond the chromosome end
        recs.sort(key=lambda r: (r[0], r[1], -r[2], r[3]))       # unknown mates first within a position
        recs = [[r[0], r[1] + 1, r[2], r[3] + 1] for r in recs]
        yield "ig.tabix", {"table": table, "recs": recs, "one_based": True, "tril": "none", "valued": False,
                           "max_split": rng.choice([0, 1, 2, 3, 4, 6, 12])}       # chunks per chromosome (default 2)


F3_KEY = "C05:F3:sanitize_records accepts a position equal to the chromosome length"


def keyfn(ev, clauses):
    """TLC names the clause after the input class; only that exact class maps onto the known finding."""
    if clauses == ["outOfChromRejected:positionEqualsLength"] and ev["drv"] in ("ig.records", "ig.bg2"):
        return F3_KEY
    import json
    return f"{ev['drv']}:{','.join(clauses)}:{json.dumps(ev['case'], sort_keys=True)}"


def run(tier, seed, only_case=None):
    r = Run("C05", tier, seed, replay=only_case is not None)
    r.rule = ("ig.records: bags of 1-8 contact records on ten table shapes with both anchors on every bin edge, next to it, at 0 and "
              "at / beyond the chromosome end, on known and unknown chromosomes, in both triangle orientations x zero/one-based x "
              "reflect/drop/none x chunk sizes through the Python API (sanitize_records + aggregate_records + unordered creation) "
              "and `cooler cload pairs`; a systematic single-record sweep over all interesting positions; ig.bg2 / ig.coo: pre-binned "
              "records through the API and `cooler load`; ig.tabix: `cooler cload tabix` on pysam-built indexes. non-trivial = >= 2 "
              "records or a boundary position.")
    r.assumptions = ["pairix loader not covered (module absent)",
                     "pre-binned FILES (bg2 / COO through `cooler load`) list every pixel at most once after mirroring - cooler "
                     "refuses a pixel repeated within one chunk; repeated pixels are exercised through the API path", "tabix input is sorted, upper-triangle, 1-based (what the loader expects)"]
    if only_case is None:
        r.model_check("MC_Ingest", "MC_Ingest_quick.cfg" if tier == "quick" else "MC_Ingest_thorough.cfg", timeout=3000)
        r.model_check("MC_Ingest", "MC_Ingest_bags.cfg")
        r.expect_refuted("MC_Ingest", "MC_Ingest_pinned.cfg", "RejectsExactlyOutOfChromPinned")     # the pinned (non-strict) bound is refuted
        cs = cases(tier, seed)
    else:
        cs = [only_case]
    for drv, case, obs in run_cases(cs, chunk=8):
        r.record(TRACE, drv, case, obs, True)
    r.exhaustive = False
    r.validate(TRACE, keyfn=keyfn)
    return r.finish()
