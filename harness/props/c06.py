"""C06 - unordered ingestion equals aggregating all records in memory."""
from __future__ import annotations

import itertools
import random

from .. import gen
from ..core import Run, run_cases
from . import merge_drivers  # noqa: F401
from .c07 import offsets

TRACE = "MergeTrace"


def chunkings(rows, k, rng):
    """Distribute a bag of records (with repeats) over k chunks; each chunk sorted and duplicate-free."""
    chunks = [dict() for _ in range(k)]
    for (i, j, v) in rows:
        order = list(range(k))
        rng.shuffle(order)
        for c in order:                      # first chunk that does not yet hold this pixel
            if (i, j) not in chunks[c]:
                chunks[c][(i, j)] = v
                break
        else:
            chunks[0][(i, j)] += v           # all chunks hold it: fold into one (still the same bag total)
    return [[[i, j, v] for (i, j), v in sorted(ch.items())] for ch in chunks]


def cases(tier, seed):
    rng = random.Random(seed)
    T = gen.REPRESENTATIVE_TABLES
    names = list(T)
    # (1) pass structure: every chunk count 1..10 x max_merge 1..10 (+0 = never two-pass), tiny chunks
    nmax = 10 if tier == "quick" else 17
    for n in range(1, nmax + 1):
        for mm in ([0, 1, 2, 3, 5, 9, 200] if tier == "quick" else [0, *range(1, nmax + 1), 200]):
            table = T["one_fixed"]
            pos = gen.positions(3, "symm")
            chunks = [[[*pos[(c + t) % len(pos)], 1 + c % 3]] for c in range(n) for t in (0,)]
            if n % 3 == 0:
                chunks[n // 2] = []          # an empty chunk in the stream
            yield "mg.unordered", {"table": table, "mode": "symm", "chunks": chunks, "cols": ["count"], "aggs": ["sum"],
                                   "buf": [1, 2, 10 ** 6][(n + mm) % 3], "max_merge": mm, "form": "frame",
                                   "scale": 4 if (n + mm) % 4 == 1 else 1}
    # (1b) no chunk at all (an empty iterator)
    for mode in ("symm", "square"):
        yield "mg.unordered", {"table": T["fixed_short"], "mode": mode, "chunks": [], "cols": ["count"], "aggs": ["sum"],
                               "buf": 10, "max_merge": 200, "form": "frame"}
    # (2) record bags x partitions x orders x buffers x storage modes
    nb = 260 if tier == "quick" else 4000
    for h in range(nb):
        F_h = gen.feat(101, h)          # independent feature choices per case (gen.feat)
        tname = names[F_h("len_names@48", len(names))]
        table = T[tname]
        if F_h("wide", 6) == 0:
            table = gen.binnify([12, 8], 1)        # 20 bins: more than a narrow ID dtype can multiply
        n = len(table)
        mode = "symm" if F_h("m3@51", 3) else "square"
        base = gen.random_store(rng, n, mode, maxval=3, density=None if n <= 10 else 0.12)
        rows = [p for p in base for _ in range(rng.choice([1, 1, 2, 3]))]     # repeated pixels
        if F_h("m11@54", 11) == 0:
            rows = []
        k = rng.randint(1, 6)
        chunks = chunkings(rows, k, rng)
        rng.shuffle(chunks)
        ncols = 1 if F_h("m4@59", 4) else 2
        cols = ["count", "x"][:ncols]
        if ncols == 2:
            chunks = [[[i, j, v, rng.randint(0, 4)] for i, j, v in ch] for ch in chunks]
        case = {"table": table, "mode": mode, "chunks": chunks, "cols": cols, "aggs": ["sum"] * ncols,
                "buf": rng.choice([1, 2, 3, 7, 10 ** 6]), "max_merge": rng.choice([0, 1, 2, 3, 200]),
                "form": "frame" if F_h("m5@65", 5) else "dict", "group": "/" if F_h("m6@65", 6) else "/x/y"}
        if F_h("m7@66", 7) == 2:
            for ch in case["chunks"]:
                rng.shuffle(ch)                  # chunk not sorted internally: sorting requested
            case["ensure_sorted"] = True
        if F_h("m6@70", 6) == 1:
            case["scale"] = 4                    # float64 value columns (multiples of 0.25), also through the two-pass merge
            case["max_merge"] = rng.choice([1, 2, 200])
        if case["form"] == "frame":
            case["labels"] = ["default", "perm", "offset", "default"][F_h("m4@74", 4)]
        case["id_dtype"] = ["int64", "int32", "int16", "uint8", "int8"][F_h("m5@75", 5)]
        case["stored_id_dtype"] = ["", "", "uint8", "int16", "int8"][F_h("storedid", 5)]
        case["assembly"] = ["", "hg19", "my assembly"][F_h("asm", 3)]
        case["meta_tag"] = [0, 7, 12345][F_h("meta", 3)]
        if case.get("ensure_sorted") and F_h("checksoff", 2) == 1:
            case["checks_off"] = True            # sorting requested with every check switched off
        if F_h("valdt", 5) == 3 and ncols == 1 and "scale" not in case:
            # narrow value dtype: every chunk fits, the sums over chunks may not (then the run must fail, not store something else)
            vd, mul, bits = [("int8", 40, 8), ("int16", 10000, 16)][F_h("valdt2", 2)]
            top = max([v for ch in case["chunks"] for _, _, v in ch] or [1])
            mul = min(mul, (2 ** (bits - 1) - 1) // top)          # every value handed in fits the dtype
            case["chunks"] = [[[i, j, v * mul] for i, j, v in ch] for ch in case["chunks"]]
            case.update({"val_dtype": vd, "bits": bits})
        if F_h("m9@76", 9) == 4 and ncols == 1:
            # duplicate checking switched off: a pixel may repeat INSIDE a chunk; the result must still be the aggregate
            # (a chunk never holds more rows than the matrix has pixels: the per-chunk temporary collection is sized for that)
            case["dupcheck"] = False
            nbn = len(table)
            cap = nbn * (nbn + 1) // 2 if mode == "symm" else nbn * nbn
            case["chunks"] = [sorted(ch + [list(p) for p in rng.sample(ch, max(0, min(len(ch), 2, cap - len(ch))))])
                              for ch in case["chunks"]]
        yield "mg.unordered", case
    # (3) merge_breakpoints on index families with leading / trailing empty rows and oversized rows
    vecs = list(itertools.product((0, 1, 3), repeat=4))
    for a in (rng.sample(vecs, 40) if tier == "quick" else vecs):
        for b in rng.sample(vecs, 3):
            for buf in (1, 2, 4, 100):
                yield "mg.breakpoints", {"idx": [offsets(a), offsets(b)], "buf": buf}


def run(tier, seed, only_case=None):
    r = Run("C06", tier, seed, replay=only_case is not None)
    r.rule = ("mg.unordered: (a) every chunk count 1..10 (17) x max_merge (0 = off, 1.., 200) with one-record chunks incl. an empty "
              "chunk, so both the single-pass and the recursive merge are taken for every count; (b) random record bags with "
              "repeated pixels on six table shapes, distributed over 1-6 chunks (each chunk sorted and duplicate-free, or unsorted "
              "with sorting requested), shuffled chunk order, merge buffer {1,2,3,7,inf}, max_merge {0,1,2,3,200}, both storage "
              "modes, frame/dict chunks, root/nested destination; a private temp dir is listed after the run. "
              "mg.breakpoints: index families with empty and oversized rows. non-trivial = >= 2 chunks with records.")
    r.assumptions = ["chunks are duplicate-free internally (a duplicate inside one chunk is invalid input, C13)"]
    if only_case is None:
        r.model_check("MC_Merge", "MC_Merge_quick.cfg" if tier == "quick" else "MC_Merge_thorough.cfg")
        r.expect_refuted("MC_Merge", "MC_Merge_pinned.cfg", "PassStructurePinned")       # F10: the pinned first-pass edges are refuted
        cs = cases(tier, seed)
    else:
        cs = [only_case]
    for drv, case, obs in run_cases(cs, chunk=8):
        nt = (sum(1 for c in case["chunks"] if c) >= 2) if drv == "mg.unordered" else case["idx"][0][-1] > 0
        r.record(TRACE, drv, case, obs, nt)
    r.exhaustive = False
    r.validate(TRACE)
    return r.finish()
