"""C07 - merging coolers is the exact element-wise aggregate of the inputs."""
from __future__ import annotations

import itertools
import random

from .. import gen
from ..core import Run, run_cases
from . import merge_drivers  # noqa: F401

TRACE = "MergeTrace"


def offsets(counts):
    out = [0]
    for c in counts:
        out.append(out[-1] + c)
    return out


def addcols(px, ncols, rng, maxv):
    return [[p[0], p[1], p[2]] + [rng.randint(1, maxv) for _ in range(ncols - 1)] for p in px]


def cases(tier, seed):
    rng = random.Random(seed)
    # (1) merge_breakpoints on every small index family
    rows = 3 if tier == "quick" else 4
    vecs = list(itertools.product(range(3), repeat=rows))
    fams = [(a,) for a in vecs] + list(itertools.product(vecs, repeat=2))
    if tier == "quick":
        fams = [(a,) for a in vecs] + rng.sample(list(itertools.product(vecs, repeat=2)), 250)
    for fam in fams:
        tot = sum(sum(a) for a in fam)
        for buf in sorted({1, 2, 3, max(1, tot - 1), tot + 1}):
            yield "mg.breakpoints", {"idx": [offsets(a) for a in fam], "buf": buf}
    for _ in range(100 if tier == "quick" else 2000):
        k = rng.randint(1, 4)
        n = rng.randint(1, 8)
        fam = [[rng.choice([0, 0, 1, 2, 5]) for _ in range(n)] for _ in range(k)]
        yield "mg.breakpoints", {"idx": [offsets(a) for a in fam], "buf": rng.randint(1, 12)}
    # (2) real merges
    T = gen.REPRESENTATIVE_TABLES
    names = list(T)
    stores3 = {m: list(gen.all_stores(3, m, (1, 2) if m == "symm" else (1,))) for m in ("symm", "square")}
    nm = 330 if tier == "quick" else 5000
    for h in range(nm):
        F_h = gen.feat(101, h)          # independent feature choices per case (gen.feat)
        if F_h("m3@47", 3) == 0:
            tname = "one_fixed" if F_h("m2@48", 2) else "onebin_chroms"
            mode = "symm" if F_h("m4@49", 4) else "square"
            k = 1 + F_h("m3@50", 3)
            ins = [rng.choice(stores3[mode]) for _ in range(k)]
            if F_h("m9@52", 9) == 0:
                ins[-1] = []
            if F_h("m15@54", 15) == 0:
                ins = [ins[0]] * k                 # identical supports
        else:
            tname = names[F_h("len_names@57", len(names))]
            mode = "symm" if F_h("m5@58", 5) else "square"
            k = rng.randint(1, 4)
            ins = [gen.random_store(rng, len(T[tname]), mode, maxval=9) for _ in range(k)]
        table = T[tname]
        ncols = [1, 1, 2, 3][F_h("m4@62", 4)]
        cols = ["count", "x", "y"][:ncols]
        aggs = ["sum"] + [rng.choice(["sum", "max", "min", "count"]) for _ in range(ncols - 1)]
        if F_h("m13@65", 13) == 5:
            aggs[0] = "count"           # an aggregate that is not the identity on a single value
        ins = [addcols(px, ncols, rng, 9) for px in ins]
        order = list(range(k))
        rng.shuffle(order)
        case = {"table": table, "mode": mode, "inputs": ins, "cols": cols, "aggs": aggs, "bits": 32, "unsigned": False,
                "buf": rng.choice([1, 2, 3, 5, 10 ** 6]), "order": order}
        if F_h("m6@72", 6) == 2 and k >= 2:
            # inputs of different integer widths, the narrower first: the output type must accommodate all of them
            case["bits_in"] = [16] + [32] * (k - 1)
            case["order"] = list(range(k))
            case["inputs"] = [case["inputs"][0]] + [[[p[0], p[1]] + [v + 40000 for v in p[2:]] for p in px] for px in case["inputs"][1:]]
        if k >= 2 and F_h("m4@77", 4) == 1:
            # nesting is only meaningful for associative aggregates ("count" of counts is not the count)
            case["aggs"] = [a if a != "count" else "sum" for a in case["aggs"]]
            case.update({"nested": rng.randint(1, k - 1) if k > 2 else 1, "buf2": rng.choice([1, 4, 10 ** 6]), "left": F_h("m8@80", 8) == 1})
        elif F_h("m7@81", 7) in (3, 5):
            case["via"] = "cli"
            case["barefields"] = F_h("m2@83", 2) == 0
        if F_h("m6@84", 6) == 5:
            case["shared_file"] = True
        if F_h("m5@86", 5) == 2 and "bits_in" not in case:
            # float64 columns holding quarters (not for the 'count' aggregate, whose result is a number of records)
            case["scale"] = 4
            case["aggs"] = [a if a != "count" else "sum" for a in case["aggs"]]
        if F_h("m4@90", 4) == 2 and ncols >= 2 and "via" not in case:
            case["partial_dtypes"] = True
        if F_h("m8@92", 8) == 6 and "via" not in case and "nested" not in case:
            case["reuse_dtypes"] = True
            case["inputs"] = [[[p[0], p[1]] + [v + 200 for v in p[2:]] for p in px] for px in case["inputs"]]   # beyond int8
        yield "mg.merge", case
    # (3) values near the limits of the value dtype: the exact aggregate or an error, never something else
    for h in range(60 if tier == "quick" else 600):
        F_h = gen.feat(102, h)          # independent feature choices per case (gen.feat)
        bits = [8, 16][F_h("m2@98", 2)]
        unsigned = F_h("m3@99", 3) == 2
        hi = (2 ** bits - 1) if unsigned else (2 ** (bits - 1) - 1)
        k = rng.randint(2, 3)
        table = T["one_fixed"]
        ins = []
        for _ in range(k):
            px = gen.random_store(rng, 3, "symm", density=0.8, maxval=1)
            ins.append([[i, j, rng.choice([1, hi // 2, hi // 2 + 1, hi - 1, hi])] for i, j, _ in px])
        cols3 = ["count"]
        if F_h("othercol", 3) == 1:
            # the value that may not fit sits in ANOTHER column than `count` (which stays small)
            cols3 = ["count", "x"]
            ins = [[[i, j, 1, v] for i, j, v in px] for px in ins]
        yield "mg.merge", {"table": table, "mode": "symm", "inputs": ins, "cols": cols3, "aggs": ["sum"] * len(cols3), "bits": bits,
                           "unsigned": unsigned, "buf": rng.choice([1, 3, 10 ** 6]), "order": list(range(k))}
    # (3b) a value column handed in as one integer dtype and stored as another: same width with the other signedness, narrower,
    # wider - values at both ends of both ranges
    RNG = {"int8": (-128, 127), "uint8": (0, 255), "int16": (-32768, 32767), "uint16": (0, 65535), "int32": (-2 ** 20, 2 ** 20)}    # (int32 inputs stay small: TLC adds them up in 32 bits)
    for h in range(120 if tier == "quick" else 1500):
        ind = ["int8", "uint8", "int16", "uint16", "int32"][h % 5]
        outd = ["int8", "uint8", "int16", "uint16"][(h // 5) % 4]
        lo, hi = RNG[ind]
        olo, ohi = RNG[outd]
        cand = [v for v in (lo, lo + 1, -1, 0, 1, olo - 1, olo, ohi, ohi + 1, hi - 1, hi, 5) if lo <= v <= hi and -2 ** 31 < v < 2 ** 31 - 1]
        pos = gen.positions(3, "symm")
        k = rng.randint(1, len(pos))
        vals = [rng.choice(cand) if rng.random() < 0.5 else rng.choice([1, 2, 5]) for _ in range(k)]
        vals = [v if lo <= v <= hi else 1 for v in vals]
        yield "mg.fits", {"px": [[i, j, v] for (i, j), v in zip(pos[:k], vals)], "in_dtype": ind, "out_dtype": outd,
                          "bits": 8 if outd.endswith("8") else 16, "unsigned": outd.startswith("u"), "form": ["frame", "dict"][h % 2]}
    # (4) incompatible inputs of every kind
    base = T["two_fixed"]
    nm2 = ["a", "b", "c", "d", "e"]
    kinds = {
        "mode": ([base, base], ["symm", "square"], [nm2, nm2]),
        "resolution": ([gen.binnify([4, 4], 2), gen.binnify([4, 4], 1)], ["symm", "symm"], [nm2, nm2]),
        "chromsizes": ([gen.binnify([4, 4], 2), gen.binnify([4, 3], 2)], ["symm", "symm"], [nm2, nm2]),
        "nchroms": ([gen.binnify([4, 4], 2), gen.binnify([4, 4, 2], 2)], ["symm", "symm"], [nm2, nm2]),
        "variable_bins": ([T["variable"], gen.table_from_edges([[0, 2, 4], [0, 3, 5]])], ["symm", "symm"], [nm2, nm2]),
        "variable_nbins": ([T["variable"], gen.table_from_edges([[0, 1, 2, 4], [0, 3, 5]])], ["symm", "symm"], [nm2, nm2]),
        "fixed_vs_variable": ([gen.binnify([4, 5], 2), gen.table_from_edges([[0, 1, 4], [0, 3, 5]])], ["symm", "symm"], [nm2, nm2]),
        "variable_vs_fixed": ([gen.table_from_edges([[0, 1, 4], [0, 3, 5]]), gen.binnify([4, 5], 2)], ["square", "square"], [nm2, nm2]),
        # a variable-width table AFTER a fixed-width one with the same chromosomes and the same NUMBER of bins
        "fixed_then_variable_same_count": ([gen.binnify([4, 4], 2), gen.table_from_edges([[0, 1, 4], [0, 3, 4]])], ["symm", "symm"], [nm2, nm2]),
        "fixed_variable_fixed": ([gen.binnify([4, 4], 2), gen.table_from_edges([[0, 1, 4], [0, 3, 4]]), gen.binnify([4, 4], 2)],
                                 ["symm", "symm", "symm"], [nm2, nm2, nm2]),
        # variable-width inputs that differ in storage mode only, in both orders
        "variable_modes_sq_first": ([T["variable"], T["variable"]], ["square", "symm"], [nm2, nm2]),
        "variable_modes_symm_first": ([T["variable"], T["variable"]], ["symm", "square"], [nm2, nm2]),
        "third_differs": ([base, base, gen.binnify([4, 4], 4)], ["symm", "symm", "symm"], [nm2, nm2, nm2]),
        # same names and lengths, listed in a different order: different bin tables
        "chrom_order": ([gen.binnify([4, 6], 2), gen.binnify([6, 4], 2)], ["symm", "symm"], [["a", "b", "c"], ["b", "a", "c"]]),
        "chrom_names": ([base, base], ["symm", "symm"], [["a", "b", "c"], ["a", "x", "c"]]),
    }
    for kind, (tables, modes, nms) in kinds.items():
        for buf in (1, 10 ** 6):
            yield "mg.incompat", {"kind": kind, "tables": tables, "modes": modes, "names": nms, "buf": buf,
                                  "empty": [False] * len(tables)}
        # an input WITHOUT pixels is as incompatible as any other: each input in turn empty; and next to a compatible pair
        for e in range(len(tables)):
            yield "mg.incompat", {"kind": kind, "tables": tables, "modes": modes, "names": nms, "buf": 10,
                                  "empty": [k == e for k in range(len(tables))]}
        if len(tables) == 2:
            yield "mg.incompat", {"kind": kind, "tables": [tables[0], tables[1], tables[0]], "modes": [modes[0], modes[1], modes[0]],
                                  "names": [nms[0], nms[1], nms[0]], "buf": 10, "empty": [False, True, False]}


def nontrivial(drv, case, obs):
    if drv == "mg.merge":
        return sum(len(p) for p in case["inputs"]) > 0
    if drv == "mg.breakpoints":
        return case["idx"][0][-1] > 0
    if drv == "mg.fits":
        return True
    return True


def run(tier, seed, only_case=None):
    r = Run("C07", tier, seed, replay=only_case is not None)
    r.rule = ("mg.breakpoints: every family of 1-2 row indexes on 3 (4) rows with <= 2 records per row x buffer sizes, plus random "
              "families; mg.merge: 1-4 input coolers (exhaustive-sampled stores on 3 bins incl. empty / identical supports, random "
              "stores on six table shapes) x buffer {1,2,3,5,inf} x input order x 1-3 value columns with sum/max/min x nested "
              "merges (left/right) x API/CLI x int8/int16 values near the type limit; mg.incompat: nine kinds of incompatible "
              "inputs. non-trivial = some input has a pixel.")
    r.assumptions = ["overflow is exercised with int8/int16 columns (TLC integers are 32-bit); the code path is the same for int32",
                     "'first'/'last' aggregates are order-dependent by definition and not required to be order-independent"]
    if only_case is None:
        r.model_check("MC_Merge", "MC_Merge_quick.cfg" if tier == "quick" else "MC_Merge_thorough.cfg")
        cs = cases(tier, seed)
    else:
        cs = [only_case]
    for drv, case, obs in run_cases(cs, chunk=8):
        r.record(TRACE, drv, case, obs, nontrivial(drv, case, obs))
    r.exhaustive = False
    r.validate(TRACE)
    return r.finish()
