"""C08 - coarsening by k is exact block aggregation within each chromosome."""
from __future__ import annotations

import random

from .. import gen
from ..core import Run, run_cases
from . import coarsen_drivers  # noqa: F401

TRACE = "CoarsenTrace"


def addcols(px, ncols, rng):
    return [[p[0], p[1], p[2]] + [rng.randint(0, 6) for _ in range(ncols - 1)] for p in px]


def cases(tier, seed):
    rng = random.Random(seed)
    tables = list(gen.REPRESENTATIVE_TABLES.values()) + [gen.binnify([7, 5], 1), gen.binnify([10, 3, 1], 2),
                                                          gen.table_from_edges([[0, 2, 3, 7, 8], [0, 1, 2, 3]]), gen.binnify([9], 3)]
    n1 = 420 if tier == "quick" else 7000
    for h in range(n1):
        F_h = gen.feat(101, h)          # independent feature choices per case (gen.feat)
        table = tables[F_h("len_tables@22", len(tables))]
        n = len(table)
        mode = "symm" if F_h("m3@24", 3) else "square"
        px = gen.random_store(rng, n, mode, maxval=5) if F_h("m10@25", 10) else []
        ncols = [1, 1, 2, 2][F_h("m4@26", 4)]
        cols = ["count", "x"][:ncols]
        # "count" (the number of old pixels in the block) is not decomposable: reducing partial results again gives another number
        aggs = ["sum"] + [rng.choice(["sum", "max", "min", "count"]) for _ in range(ncols - 1)]
        case = {"table": table, "mode": mode, "px": addcols(px, ncols, rng), "cols": cols, "aggs": aggs,
                "k": rng.choice([2, 2, 3, 4, 5, 7, n + 1]), "chunk": rng.choice([1, 2, 3, 5, 10 ** 6]),
                "nproc": 1, "group": "/" if F_h("m5@31", 5) else "/c"}
        if F_h("m40@32", 40) == 7:
            case["nproc"] = rng.choice([2, 3])          # real process pools (slow): a few
        if F_h("cli", 6) == 0:
            case["via"] = "cli"
            case["fieldstyle"] = F_h("d3_4@36", 4)
            if F_h("nonsum_count", 3) == 0:
                case["aggs"] = [rng.choice(["max", "min"])] + case["aggs"][1:]      # a non-default aggregate for count
        if F_h("m6@39", 6) == 1 and ncols == 1:
            case["scale"] = 4                            # float64 counts: multiples of 0.25
        elif F_h("m7@41", 7) == 3:
            case["src_at"] = ["/resolutions/1", "/a/b"][F_h("m2@42", 2)]     # the source is a level of a multires file / a nested group
        if F_h("m8@43", 8) == 6 and "scale" not in case and "via" not in case:
            # narrow integer columns near their limit in the source, a wide type asked for in the result: block sums that
            # do not fit the SOURCE type must come out exact
            case["in_dtype"] = ["int8", "uint8", "int16"][F_h("m3@46", 3)]
            top = {"int8": 127, "uint8": 255, "int16": 32767}[case["in_dtype"]]
            case["px"] = [[p[0], p[1]] + [rng.choice([top, top - 1, top // 2 + 1]) for _ in p[2:]] for p in case["px"]]
            case["out_dtype"] = "int64"
            case.pop("src_at", None)           # (the decoy collection next to a nested source holds values + 1)
        if F_h("m10@51", 10) == 9 and "via" not in case:
            # the source path was used before, by this process, for a cooler with OTHER bin boundaries
            lens = gen.chrom_lens(table)
            case["prior_table"] = gen.table_from_edges([[0, ln] if ln < 2 else [0, 1, ln] for ln in lens])
        yield "co.coarsen", case
    # coarse bin sizes that are NOT powers of two or round numbers (7 x 7 = 49, 7 x 14 = 98, 1 x 49, 3 x 35 = 105, 1 x 107, ...):
    # the arithmetic that maps a start coordinate to its coarse bin must be exact for every width
    for j, (lens, b, k) in enumerate([([105, 60], 7, 7), ([210, 98], 7, 14), ([150], 1, 49), ([230, 107], 1, 107), ([320], 3, 35),
                                      ([400, 200], 23, 7), ([260], 1, 103), ([600], 11, 17)][:4 if tier == "quick" else 8]):
        table = gen.binnify(lens, b)
        mode = "symm" if j % 2 == 0 else "square"
        px = gen.random_store(rng, len(table), mode, density=min(1.0, 60 / len(table) ** 2 * (2 if mode == "symm" else 1)), maxval=5)
        for chunk in (7, 10 ** 6):
            yield "co.coarsen", {"table": table, "mode": mode, "px": px, "cols": ["count"], "aggs": ["sum"], "k": k, "chunk": chunk,
                                 "nproc": 1, "group": "/"}
    # the reader-writer lock protocol when coarsening with worker processes INTO THE FILE BEING READ (slow: real pools)
    for h in range(8 if tier == "quick" else 120):
        F_h = gen.feat(102, h)          # independent feature choices per case (gen.feat)
        table = [gen.binnify([10, 6], 1), gen.binnify([14], 1), gen.binnify([7, 5, 4], 1)][F_h("m3@68", 3)]
        mode = "symm" if F_h("m3@69", 3) else "square"
        yield "co.lock", {"table": table, "mode": mode, "px": gen.random_store(rng, len(table), mode, density=0.5, maxval=4),
                          "k": rng.choice([2, 3]), "chunk": rng.choice([3, 5, 9, 17]), "nproc": rng.choice([2, 3])}
    for h in range(60 if tier == "quick" else 900):
        F_h = gen.feat(103, h)          # independent feature choices per case (gen.feat)
        table = tables[F_h("len_tables@73", len(tables))]
        n = len(table)
        mode = "symm" if F_h("m2@75", 2) else "square"
        yield "co.algebra", {"table": table, "mode": mode, "px": gen.random_store(rng, n, mode, maxval=4),
                             "px2": gen.random_store(rng, n, mode, maxval=4), "k1": rng.choice([2, 3]), "k2": rng.choice([2, 3]),
                             "chunk": rng.choice([1, 3, 10 ** 6]), "buf": rng.choice([1, 4, 10 ** 6])}


def run(tier, seed, only_case=None):
    r = Run("C08", tier, seed, replay=only_case is not None)
    r.rule = ("co.coarsen: coolers on ten table shapes (fixed with short last bin, variable, one-bin chromosomes, longer last bin) with "
              "random stores (incl. empty), factor k in {2,3,4,5,7,> bins}, chunk size {1,2,3,5,inf}, 1-3 worker processes (real "
              "pools for a few), 1-2 value columns with sum/max/min, API and CLI, root/nested destination; co.algebra: k1 then k2 vs "
              "k1*k2, coarsen(merge) vs merge(coarsened); co.lock: coarsening with 2-3 worker processes into the file being read, with the "
              "lock acquisitions / releases of the chunk iterator and of the writer and the begin / end of every worker read logged "
              "and validated against the reader-writer protocol of CoarsenLock.tla (LockTraceOK). non-trivial = non-empty store.")
    r.assumptions = ["integer-valued columns"]
    if only_case is None:
        r.model_check("MC_Coarsen", "MC_Coarsen_quick.cfg" if tier == "quick" else "MC_Coarsen_thorough.cfg", timeout=3000)
        r.model_check("CoarsenLock", "MC_CoarsenLock_ok.cfg", timeout=600)
        # broken protocol variants are refuted: a lazy map lets reads escape the lock; yielding inside the lock deadlocks
        r.expect_refuted("CoarsenLock", "MC_CoarsenLock_lazy.cfg", "NoWriteWhileReading")
        r.expect_refuted("CoarsenLock", "MC_CoarsenLock_yieldlock.cfg", "Terminates")
        if tier == "thorough":
            # unbounded in the bounded model's constants: an inductive invariant of the lock protocol for symbolic
            # NSpans <= 12, Batch <= 6, discharged by Apalache
            from .. import tlc
            t = tlc.apalache_inductive("CoarsenLock", "ConstInit", "Init", "IndInit", "IndInv")
            r.notes.append(f"Apalache: CoarsenLock!IndInv (=> NoWriteWhileReading) inductive for symbolic NSpans<=12, Batch<=6: {t}")
        cs = cases(tier, seed)
    else:
        cs = [only_case]
    for drv, case, obs in run_cases(cs, chunk=6):
        r.record(TRACE, drv, case, obs, len(case["px"]) > 0)
    r.exhaustive = False
    r.validate(TRACE)
    return r.finish()
