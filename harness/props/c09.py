"""C09 - every zoom level of a multires file equals direct coarsening of its base."""
from __future__ import annotations

import itertools
import random

from .. import gen
from ..core import Run, run_cases
from . import coarsen_drivers  # noqa: F401

TRACE = "CoarsenTrace"


def cases(tier, seed):
    rng = random.Random(seed)
    # (1) predecessor search on resolution sets
    subsets = []
    top = 12
    for r in range(1, 5):
        subsets += [list(c) for c in itertools.combinations(range(1, top + 1), r)]
    if tier == "thorough":
        for r in range(5, 8):
            subsets += [list(c) for c in rng.sample(list(itertools.combinations(range(1, top + 1), r)), 400)]
    else:
        subsets = rng.sample(subsets, 500)
    for S in subsets:
        rng.shuffle(S)
        for _ in range(2):
            nb = rng.randint(1, min(2, len(S)))
            bases = rng.sample(S, nb) if rng.random() < 0.8 else [rng.randint(1, 6)]
            yield "zm.multiplier", {"resolutions": S, "bases": bases}
    # (2) real multires files
    setups = [(gen.binnify([10, 7], 1), 1), (gen.binnify([16, 6], 2), 2), (gen.binnify([12], 1), 1), (gen.binnify([9, 9, 3], 3), 3)]
    ladders = [[2, 4, 8], [8, 4, 2], [4, 2], [2, 3, 6, 12], [12, 6, 3, 2], [6], [2, 6, 4], [3, 9], [2, 5], [4, 6], [1, 2, 4], [10, 2],
               [1]]                                           # [1]: the base alone - a multires file with a single level
    nz = 70 if tier == "quick" else 900
    for h in range(nz):
        F_h = gen.feat(101, h)          # independent feature choices per case (gen.feat)
        table, b0 = setups[F_h("len_setups@37", len(setups))]
        mode = "symm" if F_h("m3@38", 3) else "square"
        px = gen.random_store(rng, len(table), mode, maxval=4) if F_h("m8@39", 8) else []
        mult = ladders[F_h("len_ladders@40", len(ladders))] if F_h("m5@40", 5) else sorted(rng.sample(range(1, 13), rng.randint(1, 4)))
        res = [m * b0 for m in mult]
        if F_h("m4@42", 4) == 1 and b0 not in res:
            res.append(b0)                                       # with the base itself
        if F_h("m7@44", 7) == 3:
            res = res + [res[-1] * 2 + b0 // 1 * 1 if False else (res[0] * 2 + 1) * 1]   # a member that cannot be derived
        base_res = [b0]
        if F_h("m6@47", 6) == 2:
            base_res = [b0, 2 * b0]                              # several base coolers
        case = {"table": table, "mode": mode, "binsize": b0, "px": px, "resolutions": res, "base_res": base_res,
                "chunk": rng.choice([1, 2, 5, 10 ** 6]), "nproc": 2 if F_h("m23@50", 23) == 9 else 1,
                "tagged": F_h("tagged", 2) == 1,
                # the aggregate of the value column (max / min compose like sum, so "direct coarsening" stays well defined)
                "agg": ["sum", "sum", "sum", "max", "min"][F_h("agg", 5)]}
        if F_h("m9@51", 9) == 6:
            case["via"] = "cli"
        if F_h("m6@53", 6) == 4:
            case["src_at"] = "/resolutions/%d" % b0              # the base is itself a level of another multires file
        if F_h("m5@55", 5) == 3:
            # the output path was used before, for other data and another ladder
            case["prior"] = {"px": gen.random_store(rng, len(table), mode, maxval=4),
                             "resolutions": [m * b0 for m in rng.choice([[2, 4, 8, 16], [3, 6], [2, 5, 10], [1, 7]])]}
        yield "zm.zoomify", case
    # (2b) bases that are not coarsenings of one another, with their own data and value dtype
    for h in range(24 if tier == "quick" else 300):
        F_h = gen.feat(102, h)          # independent feature choices per case (gen.feat)
        lens = [[24, 12], [36], [18, 12, 6]][F_h("m3@62", 3)]
        mode = "symm" if F_h("m3@63", 3) else "square"
        ra, rb = rng.choice([(2, 3), (3, 2), (2, 5), (3, 4), (4, 3)])
        dts = rng.choice([("int32", "float64"), ("float64", "int32"), ("int32", "float32"), ("int64", "float64"), ("float64", "float64")])
        bases = []
        for res, dt in ((ra, dts[0]), (rb, dts[1])):
            tb = gen.binnify(lens, res)
            px = gen.random_store(rng, len(tb), mode, maxval=9)
            if dt.startswith("int"):
                px = [[i, j, 4 * v] for i, j, v in px]            # quarters: whole numbers only
            bases.append({"res": res, "table": tb, "px": px, "dtype": dt})
        mult = rng.choice([[2], [2, 4], [3], [2, 6]])
        res = sorted({ra * m for m in mult} | {rb * m for m in mult})
        res = [r for r in res if (r % ra == 0) != (r % rb == 0)]     # exactly one possible base
        rng.shuffle(res)
        yield "zm.multibase", {"mode": mode, "bases": bases, "resolutions": res, "chunk": rng.choice([3, 10 ** 6]),
                               "dtypes_arg": ["none", "empty", "cli"][F_h("m3@78", 3)]}      # dtypes=None / an empty mapping / `--field count`
    # (3) resolution-spec spellings of `cooler zoomify -r`
    specs = [("N", [{"kind": "n", "start": 1000}]), ("n", [{"kind": "n", "start": 1000}]), ("B", [{"kind": "b", "start": 1000}]),
             ("b", [{"kind": "b", "start": 1000}]), ("4DN", [{"kind": "4dn", "start": 0}]), ("4dn", [{"kind": "4dn", "start": 0}]),
             ("5000N", [{"kind": "n", "start": 5000}]), ("2000n", [{"kind": "n", "start": 2000}]),
             ("2000B", [{"kind": "b", "start": 2000}]), ("4000b", [{"kind": "b", "start": 4000}]),
             ("2000,5000", [{"kind": "int", "start": 2000}, {"kind": "int", "start": 5000}]),
             ("4000, 2000B", [{"kind": "int", "start": 4000}, {"kind": "b", "start": 2000}]),
             ("10000,2000N", [{"kind": "int", "start": 10000}, {"kind": "n", "start": 2000}])]
    for spec, items in specs:
        lens = [2_000_000, 1_000_000]
        yield "zm.resspec", {"spec": spec, "items": items, "binsize": 1000, "lens": lens,
                             "maxres": -(-sum(lens) // 256)}
    # genomes whose coarsest useful resolution ceil(length / 256) is EXACTLY a member of the progression (the bound is inclusive)
    for lens, b0, spec, items in (([1024], 1, "B", [{"kind": "b", "start": 1}]), ([1280], 1, "N", [{"kind": "n", "start": 1}]),
                                  ([2048], 2, "2B", [{"kind": "b", "start": 2}]), ([1281], 1, "N", [{"kind": "n", "start": 1}]),
                                  ([2560], 1, "N", [{"kind": "n", "start": 1}]), ([512, 512], 1, "b", [{"kind": "b", "start": 1}]),
                                  ([256], 1, "B", [{"kind": "b", "start": 1}]), ([5120], 2, "2N", [{"kind": "n", "start": 2}]),
                                  # ... and genomes that are NOT multiples of 256 while ceil(length / 256) is a member
                                  ([1000], 1, "B", [{"kind": "b", "start": 1}]), ([1100], 1, "N", [{"kind": "n", "start": 1}]),
                                  ([600, 430], 1, "b", [{"kind": "b", "start": 1}]), ([2000], 2, "2B", [{"kind": "b", "start": 2}]),
                                  ([2300], 1, "N", [{"kind": "n", "start": 1}]), ([1900, 100], 1, "B", [{"kind": "b", "start": 1}])):
        yield "zm.resspec", {"spec": spec, "items": items, "binsize": b0, "lens": lens, "maxres": -(-sum(lens) // 256)}
    # genome sizes at which the aliases differ from one another (small: < 512 kb; large: > 5.12 Mb)
    for lens in ([300_000], [4_000_000, 2_500_000]):
        for spec, items in (specs[0], specs[2], specs[4], specs[6]):
            yield "zm.resspec", {"spec": spec, "items": items, "binsize": 1000, "lens": lens, "maxres": -(-sum(lens) // 256)}


def nontrivial(drv, case, obs):
    if drv == "zm.multibase":
        return any(b["px"] for b in case["bases"])
    if drv == "zm.zoomify":
        return len(case["px"]) > 0
    if drv == "zm.multiplier":
        return len(case["resolutions"]) > 1
    return True


def run(tier, seed, only_case=None):
    r = Run("C09", tier, seed, replay=only_case is not None)
    r.rule = ("zm.multiplier: subsets of 1..12 of size 1-4 (7) in random order x base choices through get_multiplier_sequence; "
              "zm.zoomify: four fixed-width bases (bin sizes 1,2,3; 1-3 chromosomes) with random stores x ladders in any order "
              "(2-4-8, 8-4-2, 2-3-6-12 mixed predecessors, with/without the base, with a non-derivable member) x one or two base "
              "coolers x chunk size x 1-2 workers x API/CLI: every level is read back and compared with DIRECT coarsening of the "
              "base; with / without an earlier multires file at the output path; zm.multibase: two bases that are not coarsenings of one "
              "another (bin sizes 2/3, 2/5, 3/4; own data; int32/int64/float32/float64 value columns, quarter-valued floats), each "
              "level derivable from exactly one of them; zm.resspec: 13 spellings of the CLI resolution spec (N, B, 4DN, <k>N, <k>B, lists). non-trivial = store not "
              "empty / more than one resolution.")
    r.assumptions = ["bases are fixed-width coolers whose bin sizes divide the targets as stated by the case"]
    if only_case is None:
        # (the store-heavy thorough instance belongs to C08; here the resolution sets grow: MaxRes 12)
        r.model_check("MC_Coarsen", "MC_Coarsen_quick.cfg" if tier == "quick" else "MC_Coarsen_zoom.cfg", timeout=3000)
        # the pinned predecessor relation (defect F30: a base that a smaller base divides was re-derived and overwritten) is refuted
        r.expect_refuted("MC_Coarsen", "MC_Coarsen_predpinned.cfg", "BasesAreCopiedNotRederived")
        cs = cases(tier, seed)
    else:
        cs = [only_case]
    for drv, case, obs in run_cases(cs, chunk=4):
        r.record(TRACE, drv, case, obs, nontrivial(drv, case, obs))
    r.exhaustive = False
    r.validate(TRACE)
    return r.finish()
