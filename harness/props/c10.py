"""C10 - balancing weights flatten the marginals of the filtered matrix (the integer-decidable part)."""
from __future__ import annotations

import random

from .. import gen
from ..core import Run, run_cases
from . import balance_drivers  # noqa: F401

TRACE = "BalanceTrace"


def circulant(n, offsets_vals, base=0):
    """Symmetric matrix on bins base..base+n-1 whose row sums are all 2*sum(vals): value v at (i, i+k mod n)."""
    px = {}
    for k, v in offsets_vals:
        F_k = gen.feat(101, k)          # independent feature choices per case (gen.feat)
        assert 0 < k and 2 * k != n and k < n
        for i in range(n):
            j = (i + k) % n
            a, b = min(i, j) + base, max(i, j) + base
            px[(a, b)] = px.get((a, b), 0) + v
    return [[a, b, v] for (a, b), v in sorted(px.items())]


def opts(mode="genome", diags=2, min_nnz=0, min_count=0, mad=False, black=(), x0=(), rescale=True):
    return {"mode": mode, "diags": diags, "min_nnz": min_nnz, "min_count": min_count, "mad": mad, "black": list(black),
            "x0": list(x0), "rescale": rescale}


def cases(tier, seed):
    rng = random.Random(seed)
    tables = [gen.binnify([8], 1), gen.binnify([5, 4], 1), gen.binnify([4, 3, 3], 1), gen.binnify([12, 6], 2),
              gen.table_from_edges([[0, 2, 3, 7, 8, 9], [0, 1, 2, 5]]), gen.binnify([6, 6], 1)]
    # (1) the NaN set of the discrete filter pipeline on random integer matrices
    for h in range(320 if tier == "quick" else 9000):
        F_h = gen.feat(102, h)          # independent feature choices per case (gen.feat)
        table = tables[F_h("len_tables@35", len(tables))]
        n = len(table)
        px = gen.random_store(rng, n, "symm", density=rng.choice([0.3, 0.6, 0.9, 1.0]), maxval=6)
        if F_h("m17@38", 17) == 0:
            px = []
        if F_h("m6@40", 6) == 2:
            # explicitly stored zero counts (e.g. a cooler loaded from a dense dump): records, but not non-zeros
            px = [[i, j, 0 if rng.random() < 0.4 else v] for i, j, v in px]
        nch = 1 + max(t[0] for t in table)
        mode = rng.choice(["genome", "genome", "cis"] + (["trans"] if nch >= 2 else []))
        black = rng.sample(range(n), rng.choice([0, 0, 1, 2]))
        x0 = [rng.choice([1, 1, 1, 0, -1]) for _ in range(n)] if F_h("m4@46", 4) == 1 else []
        o = opts(mode, rng.choice([0, 1, 2]), rng.choice([0, 0, 1, 2, 3, 5]), rng.choice([0, 0, 2, 5, 12]), False, black, x0,
                 F_h("m3@48", 3) != 0)
        case = {"table": table, "px": px, "o": o, "chunk": rng.choice([0, 2, 5, 10 ** 6]), "store": F_h("m5@49", 5) == 0, "witness": False}
        if F_h("oneiter", 6) == 3 and not x0 and mode != "trans":
            case["o"]["max_iters"] = 1          # one iteration only: which scopes report convergence is decidable (flat or not)
        if F_h("m10@50", 10) in (4, 5):
            case["at"] = ["/resolutions/1000", "/a/b"][F_h("m2@51", 2)]      # a level of a multires file / any nested group
        if F_h("m7@52", 7) == 6:
            case["prior"] = "relayout"              # the path held another collection (other chromosome layout, other pixels) before
        if F_h("m9@54", 9) == 7:
            case["stale"] = True                                   # balanced through an object that predates the current content
        if F_h("m11@56", 11) in (4, 8) and not x0:
            case["via"] = "cli"
            case["o"]["rescale"] = True
            case["nproc"] = [0, 1, 2, 8][F_h("d11_4@59", 4)]            # 0: the command's default (8 processes)
            if F_h("ignoredist", 2) == 0 and table is not tables[4]:          # (a variable-width table has no bin size)
                # a distance in bp next to --ignore-diags: fewer, as many and more diagonals than that option asks for
                b = table[0][2] - table[0][1]
                case.update({"ignore_dist": rng.choice([0, 1, b, b + 1, 2 * b, 3 * b]), "binsize": b})
            if F_h("fewpx", 2) == 0:
                case["px"] = case["px"][:rng.randint(0, 6)]        # fewer stored pixels than worker processes
            # (the blacklist goes through a BED file with a header line: one region per blacklisted bin, ending on the bin edge)
        yield "bl.balance", case
    # (2) witness family: uniform filtered marginals S in {4, 16, 64}: exact weights 1/sqrt(S), scale S, converged
    for h in range(90 if tier == "quick" else 1200):
        F_h = gen.feat(103, h)          # independent feature choices per case (gen.feat)
        kind = F_h("m3@66", 3)
        if kind == 0:                              # genome-wide, 1-2 chromosomes
            n = rng.choice([7, 8, 9, 11])
            lens = [n] if F_h("m2@69", 2) else [n - 3, 3]
            v = rng.choice([[(2, 2)], [(3, 2)], [(2, 8)], [(2, 2), (3, 6)], [(2, 1), (3, 1)], [(3, 32)]])
            px = circulant(n, [kv for kv in v if kv[0] * 2 != n])
            table = gen.binnify(lens, 1)
            o = opts("genome", 2, rng.choice([0, 1, 2]), rng.choice([0, 2]), F_h("m4@73", 4) == 1, [], [], F_h("m5@73", 5) != 0)
        elif kind == 1:                            # cis-only, per-chromosome scales
            n1, n2 = rng.choice([(7, 5), (5, 7), (6, 5), (9, 7)])
            px = circulant(n1, [(2, rng.choice([2, 8]))]) + circulant(n2, [(2, rng.choice([2, 8, 32]))], base=n1)
            px += [[0, n1, 5], [1, n1 + 2, 3]]       # trans pixels that cis-only must ignore
            px.sort()
            table = gen.binnify([n1, n2], 1)
            o = opts("cis", 2, rng.choice([0, 2]), 0, False, [], [], F_h("m2@80", 2) == 0)
        else:                                      # trans-only, two chromosomes of equal size: every bin sees T from the other one
            m = rng.choice([3, 4, 5])
            T = rng.choice([1, 4, 16])
            px = [[i, m + (i + s) % m, T // 1] for i in range(m) for s in (0,)]
            px += [[i, i + 2, 7] for i in range(m - 2)]    # cis data that trans-only must ignore
            px.sort()
            table = gen.binnify([m, m], 1)
            o = opts("trans", 0, 0, 0, False, [], [], True)
        yield "bl.balance", {"table": table, "px": px, "o": o, "chunk": rng.choice([0, 2, 5]), "store": False, "witness": True}
    # (3) MAD-max on its decidable sub-family: most bins sit on the chromosome median, a few weak bins below it
    for h in range(60 if tier == "quick" else 900):
        F_h = gen.feat(104, h)          # independent feature choices per case (gen.feat)
        n = rng.choice([9, 10, 11, 13])
        px = dict(((a, b), v) for a, b, v in circulant(n, [(2, 8), (3, 8)]))
        weak = rng.sample(range(n), rng.choice([0, 1, 1]))
        for wbin in weak:                           # weaken one bin: remove most of its contacts (its partners drop a little too)
            for (a, b) in list(px):
                if wbin in (a, b) and rng.random() < 0.8:
                    del px[(a, b)]
        pxl = [[a, b, v] for (a, b), v in sorted(px.items())]
        o = opts(rng.choice(["genome", "cis"]), 2, rng.choice([0, 1]), rng.choice([0, 4, 9]), True, [], [], True)
        # empty bins (rows without any pixel): trailing ones on the same chromosome, and / or a second chromosome that holds
        # a block of its own plus empty bins - the median the filter compares with is taken over bins WITH data
        lens = [n + F_h("trailing_empty", 4)]
        if F_h("second_chrom", 3) == 0:
            m2 = rng.choice([7, 8])
            pxl += circulant(m2, [(2, 8), (3, 8)], base=lens[0])
            lens.append(m2 + rng.choice([0, 3, 6]))
        yield "bl.balance", {"table": gen.binnify(lens, 1), "px": pxl, "o": o, "chunk": rng.choice([0, 3]), "store": False,
                             "witness": False}


F19_KEY = "C10:F19:trans-only weights omit the chromosome-size factor used inside the iteration"


def keyfn(ev, clauses):
    """TLC names the clause after the exact wrong value it saw; only that value maps onto the known finding."""
    if clauses == ["transOnlyRowSumsAreOne:weightsOmitChromosomeFactor"] and ev["case"]["o"]["mode"] == "trans":
        return F19_KEY
    import json
    return f"{ev['drv']}:{','.join(clauses)}:{json.dumps(ev['case'], sort_keys=True)}"


def run(tier, seed, only_case=None):
    r = Run("C10", tier, seed, replay=only_case is not None)
    r.rule = ("bl.balance: (1) random symmetric integer matrices on six tables (1-3 chromosomes, fixed and variable) x mode "
              "(genome-wide / cis / trans) x ignore_diags 0-2 x min_nnz x min_count x blacklist x initial weights with zeros and "
              "NaNs x rescaling x chunk size x API/CLI with mad_max=0: the NaN set must be exactly the set the specification "
              "derives from the integer data; (2) an exact witness family (circulant matrices with uniform filtered marginals "
              "4/16/64; per-chromosome in cis mode; two equal chromosomes in trans mode): weights 1/sqrt(S), scale S and the "
              "converged flag exactly; (3) MAD-max with min_count on the sub-family where the filter is decidable. "
              "non-trivial = non-empty matrix.")
    r.assumptions = ["NOT decided (floating point): the flatness bound for general matrices, MAD-max outside the sub-family where the "
                     "median absolute deviation is 0, convergence of general inputs - see DESIGN.md section 7",
                     "a retained bin without remaining partners keeps a finite weight (the code's reading of 'no remaining data' is "
                     "per matrix / per chromosome)"]
    if only_case is None:
        r.model_check("MC_Balance", "MC_Balance.cfg")
        cs = cases(tier, seed)
    else:
        cs = [only_case]
    for drv, case, obs in run_cases(cs, chunk=8):
        r.record(TRACE, drv, case, obs, len(case["px"]) > 0)
    r.exhaustive = False
    r.validate(TRACE, keyfn=keyfn)
    return r.finish()
