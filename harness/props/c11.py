"""C11 - balancing depends on the data only, not on chunking or scheduling."""
from __future__ import annotations

import random

from .. import gen
from ..core import Run, run_cases
from . import balance_drivers  # noqa: F401
from .c10 import circulant, opts

TRACE = "BalanceTrace"


def cases(tier, seed):
    rng = random.Random(seed)
    tables = [gen.binnify([8], 1), gen.binnify([5, 4], 1), gen.binnify([4, 3, 3], 1), gen.binnify([12, 6], 2)]
    # (1) the split-apply-combine pipeline with adversarial completion orders: exact integer marginals
    for h in range(360 if tier == "quick" else 6000):
        F_h = gen.feat(101, h)          # independent feature choices per case (gen.feat)
        table = tables[F_h("len_tables@18", len(tables))]
        n = len(table)
        px = gen.random_store(rng, n, "symm", density=rng.choice([0.4, 0.8, 1.0]), maxval=9)
        nnz = len(px)
        chunk = rng.choice([1, 2, 3, max(1, nnz - 1), nnz, nnz + 1, nnz + 7, max(1, nnz // 2)])
        o = opts(rng.choice(["genome", "cis"]), rng.choice([0, 1, 2]))
        yield "bl.pipeline", {"table": table, "px": px, "o": o, "chunk": chunk, "default_spans": F_h("m2@24", 2) == 0,
                              "map": ["seq", "reversed", "perm", "perm"][F_h("m4@25", 4)], "seed": h,
                              **({"at": "/a/b"} if F_h("m7@26", 7) == 3 else {}), "stale": F_h("m5@26", 5) == 2}
    # (2) full balancing runs under many chunk sizes and map implementations
    big = [gen.binnify([10], 1), gen.binnify([7, 6], 1), gen.binnify([5, 5, 4], 1)]
    for h in range(30 if tier == "quick" else 500):
        F_h = gen.feat(102, h)          # independent feature choices per case (gen.feat)
        table = big[F_h("len_big@30", len(big))]
        n = len(table)
        nch = 1 + max(t[0] for t in table)
        if F_h("m3@33", 3) == 0:
            px = circulant(n, [(2, 4), (3, 2)])                     # a witness: converges at once
        else:
            px = [[i, j, rng.randint(1, 20) + (30 if abs(i - j) < 4 else 0)] for i in range(n) for j in range(i, n)
                  if rng.random() < 0.9]
        nnz = len(px)
        mode = ["genome", "cis", "genome", "trans"][F_h("m4@39", 4)] if nch >= 3 else ["genome", "cis"][F_h("m2@39", 2)] if nch == 2 else "genome"
        o = opts(mode, rng.choice([0, 1, 2]), rng.choice([0, 2]), 0, F_h("m5@40", 5) == 1, [], [], True)
        runs = [[0, "seq"], [1, "seq"], [2, "perm"], [3, "reversed"], [max(1, nnz - 1), "seq"], [nnz, "perm"], [nnz + 5, "seq"],
                [7, "perm"], [max(2, nnz // 3), "reversed"]]
        if tier == "quick":
            runs = runs[:1] + rng.sample(runs[1:], 5)
        if F_h("m6@45", 6) == 2:
            runs += [[5, "pool.map"], [4, "pool.imap"], [3, "pool.imap_unordered"]]
        if F_h("m6@47", 6) == 4 and not o["mad"]:
            runs += [[0, "cli.1"], [7, "cli.2"], [0, "cli.8"]]               # the command line with 1, 2, 8 worker processes
            if F_h("fewpx", 2) == 0:
                px = px[:rng.randint(1, 6)]                                   # fewer stored pixels than processes
                nnz = len(px)
        extra = {}
        if F_h("prior", 3) == 0:
            extra["prior"] = "relayout"          # the path held a cooler with ANOTHER chromosome layout, balanced by this process
        if F_h("masked", 3) == 0 and not any(k.startswith("cli.") for _, k in runs):
            o["black"] = sorted(rng.sample(range(n), rng.choice([1, 2])))      # masked bins (with contacts to other chromosomes)
        yield "bl.schedules", {"table": table, "px": px, "o": o, "runs": runs, "seed": h, "workers": 2 + F_h("m2@52", 2), **extra,
                               **({"at": "/resolutions/1000"} if F_h("m5@53", 5) == 3 else {}), "stale": F_h("m4@53", 4) == 1}


def run(tier, seed, only_case=None):
    r = Run("C11", tier, seed, replay=only_case is not None)
    r.rule = ("bl.pipeline: split(...).prepare().pipe(filters).pipe(marginalize).reduce(add) on random integer matrices x chunk sizes "
              "from 1 pixel to beyond nnz (default and overshooting spans) through a recording map that evaluates and yields the "
              "chunks in sequential, reversed and randomly permuted completion order: spans, per-chunk partial marginals and the "
              "total are exact integers; bl.schedules: balance_cooler on witness and random matrices (genome-wide, cis, trans, with "
              "and without MAD-max) for nine chunk sizes x {sequential, reversed, permuted} maps and real multiprocess pools "
              "(map, imap, imap_unordered): NaN sets identical, weights equal within 2^-19, same convergence. non-trivial always.")
    r.assumptions = ["'up to floating-point summation order' is judged by TLC on weights quantised to 2^-20 with a slack of 2 units",
                     "NOT decided: coincidence with a dense reference implementation of iterative correction (only on the exact witness "
                     "family of C10)"]
    if only_case is None:
        r.model_check("MC_Balance", "MC_Balance.cfg")
        cs = cases(tier, seed)
    else:
        cs = [only_case]
    nruns = 0
    for drv, case, obs in run_cases(cs, chunk=4):
        nruns += len(obs.get("runs", ())) or 1
        r.record(TRACE, drv, case, obs, True)
    r.extra["schedules_executed"] = nruns
    r.exhaustive = False
    r.validate(TRACE)
    return r.finish()
