"""C12 - balanced reads equal raw values times the two bin weights."""
from __future__ import annotations

import itertools
import random

from .. import gen
from ..core import Run, run_cases
from . import rq_drivers  # noqa: F401

TRACE = "RangeQueryTrace"
NAMES = ["weight", "w2", "KR", "VC", "VC_SQRT"]


def cases(tier, seed):
    rng = random.Random(seed)
    stores = {"symm": list(gen.all_stores(3, "symm", (1, 3))), "square": list(gen.all_stores(3, "square", (1,)))}
    wins3 = list(gen.windows(3))
    wexps = list(itertools.product((0, 1, 2, -1), repeat=3))
    k = 0
    nev = 240 if tier == "quick" else 4000
    while k < nev:
        mode = "symm" if k % 3 else "square"
        px = rng.choice(stores[mode])
        if not px and k % 7:
            continue
        wexp = list(rng.choice(wexps))
        name = NAMES[k % len(NAMES)]
        div = ["None", "True", "False"][(k // len(NAMES)) % 3]
        for part in (0, 50):
            yield "rq.balanced", {"n": 3, "mode": mode, "px": px, "wexp": wexp, "wname": name, "divisive": div,
                                  "as_true": name == "weight" and k % 2 == 0,
                                  "chunk": rng.choice([1, 2, 10 ** 7]),
                                  "open": "handle" if k % 6 else rng.choice(["path", "uri"]),
                                  "wins": wins3[part:part + 50], **({"at": "/resolutions/10"} if k % 4 == 2 else {})}
        k += 1
    # larger stores, several chromosomes, random windows incl. rectangular with different row/column ranges
    nbig = 40 if tier == "quick" else 800
    tables = list(gen.REPRESENTATIVE_TABLES.values())
    for k in range(nbig):
        F_k = gen.feat(101, k)          # independent feature choices per case (gen.feat)
        table = tables[F_k("len_tables@40", len(tables))]
        n = len(table)
        mode = rng.choice(["symm", "square"])
        px = gen.random_store(rng, n, mode, maxval=3)
        wexp = [rng.choice((0, 1, 2, 3, -1)) for _ in range(n)]
        wins = list(gen.windows(n))
        rng.shuffle(wins)
        yield "rq.balanced", {"n": n, "mode": mode, "px": px, "table": table, "wexp": wexp,
                              "wname": rng.choice(NAMES), "divisive": rng.choice(["None", "True", "False"]),
                              "as_true": False, "chunk": rng.choice([1, 3, 10 ** 7]), "open": ["handle", "path", "uri"][F_k("m3@49", 3)],
                              "wins": wins[:40], **({"at": "/a/b"} if F_k("m3@50", 3) == 1 else {}), "prior": F_k("m4@50", 4) == 1,
                              # the weight column is REWRITTEN (re-balancing) after this Cooler object has served balanced reads
                              "wexp_first": [rng.choice((0, 1, 2, 3, -1)) for _ in range(n)] if F_k("rewritten", 3) == 1 else []}
    # missing weight column must be an error, for every form; also balance=True without a 'weight' column
    for k in range(6 if tier == "quick" else 40):
        F_k = gen.feat(102, k)          # independent feature choices per case (gen.feat)
        mode = rng.choice(["symm", "square"])
        px = rng.choice(stores[mode])
        for name, have in (("nosuch", True), ("weight", False), ("KR", True), ("nosuch", False)):
            yield "rq.missing", {"n": 3, "mode": mode, "px": px, "wname": name, "have_weight": have,
                                 "open": "handle", "wins": rng.sample(wins3, 6), **({"at": "/a/b"} if F_k("m2@57", 2) else {})}


def run(tier, seed, only_case=None):
    r = Run("C12", tier, seed, replay=only_case is not None)
    r.rule = ("cases = (store, weight vector of powers of two / NaN, weight column name, divisive flag, chunk, windows); "
              "every case is queried for dense, sparse and pixel output on each listed window (all 100 windows of 3 bins; "
              "random windows of larger multi-chromosome tables); results are exact integers scaled by 2^8. "
              "non-trivial = store has a pixel and at least one weight differs from 1.")
    r.assumptions = ["weights restricted to powers of two and NaN so that products/reciprocals are exact in binary floating point",
                     "cooler dump --balanced is exercised under C16", "pydata/sparse output not covered (package absent)"]
    if only_case is None:
        r.model_check("MC_RangeQuery", "MC_RangeQuery_weights.cfg")
        cs = cases(tier, seed)
    else:
        cs = [only_case]
    nq = 0
    for drv, case, obs in run_cases(cs, chunk=4):
        nq += 3 * len(obs.get("q", ()))
        nt = len(case["px"]) > 0 and (drv == "rq.missing" or any(e != 0 for e in case["wexp"]))
        r.record(TRACE, drv, case, obs, nt)
    r.extra["queries"] = nq
    r.exhaustive = False
    r.validate(TRACE)
    return r.finish()
