"""C13 - invalid input or a failed write never yields a cooler nor harms its neighbours."""
from __future__ import annotations

import random

from .. import gen
from ..core import Run, run_cases
from . import create_drivers  # noqa: F401

TRACE = "CreateTrace"
PATHS = [[], ["a"], ["a", "n"], ["b"]]


def sorted_stream(rng, n, symm, nchunks):
    pos = gen.positions(n, "symm" if symm else "square")
    keep = [p for p in pos if rng.random() < 0.7]
    rows = [[i, j, rng.randint(1, 3)] for (i, j) in keep]
    cuts = sorted(rng.randint(0, len(rows)) for _ in range(nchunks - 1))
    e = [0, *cuts, len(rows)]
    return [rows[a:b] for a, b in zip(e[:-1], e[1:])]


def inject(chunks, k, kind, pos, n, symm):
    """One invalid record of the given kind at position pos of chunk k."""
    c = list(chunks[k])
    if kind == "neg":
        bad = [-1, 0, 1]
    elif kind == "excess":
        bad = [0, n, 1]
    elif kind == "excess_both":
        bad = [n, n, 1]
    elif kind == "tril":
        bad = [n - 1, 0, 1]
    else:                                  # dup: repeat a record of this chunk (or a fresh one twice)
        if c:
            bad = list(c[min(pos, len(c) - 1)])
        else:
            c = [[0, 0, 1]]
            bad = [0, 0, 2]
    pos = min(pos, len(c))
    c.insert(pos, bad)
    out = [list(x) for x in chunks]
    out[k] = c
    return out


def calls_for(rng, tier):
    """A history of 1-3 create calls on one file; at most the last ones carry faults."""
    ncalls = rng.choice([1, 2, 2, 3, 3])
    calls = []
    for ci in range(ncalls):
        n = rng.choice([2, 3, 4])
        symm = rng.random() < 0.7
        dest = rng.choice(PATHS)
        mode = "w" if ci == 0 and rng.random() < 0.5 else rng.choice(["a", "a", "a", "w"])
        nch = rng.randint(1, 4)
        chunks = sorted_stream(rng, n, symm, nch)
        fk = rng.choice(["none", "none", "iter_raise", "invalid", "invalid", "crash_indexes", "crash_info",
                         "crash_tables", "crash_after_tables", "bad_metadata", "kill", "kill"])
        fault = {"kind": fk, "at": 0}
        if fk == "kill":                       # process death before the at-th file open of the writer (one beyond: may complete)
            fault["at"] = rng.randint(1, 4 + nch)
        if fk == "iter_raise":
            fault["at"] = rng.randint(0, nch)
            chunks = chunks[:fault["at"]]
        elif fk == "invalid":
            k = rng.randint(0, nch - 1)
            kinds = ["neg", "excess", "excess_both", "dup"] + (["tril"] if symm and n > 1 else [])
            kind = rng.choice(kinds)
            chunks = inject(chunks, k, kind, rng.randint(0, 3), n, symm)[:k + 1]
            fault.update({"at": k, "what": kind})
        calls.append({"dest": dest, "mode": mode, "n": n, "symm": symm, "chunks": chunks, "fault": fault,
                      "id_dtype": rng.choice(["int64", "int64", "uint32", "uint64", "int32", "uint8"]),
                      "noslash": rng.random() < 0.3, "explicit_root": rng.random() < 0.5})
    return calls


def systematic():
    """One invalid record of each kind at every chunk index and position; iterator failure before every chunk;
    destinations: new file, new group in a multi-collection file, nested group, root of a file with other collections."""
    base = [[[0, 0, 1], [0, 1, 2]], [[0, 2, 1]], [], [[1, 1, 3], [2, 2, 1]]]
    n, symm = 3, True
    setups = [
        ("newfile_root", [], []),
        ("newfile_group", [], ["a"]),
        ("group_in_multi", [[], ["b"]], ["a"]),
        ("nested_in_multi", [["a"], ["b"]], ["a", "n"]),
        ("root_in_multi", [["a"], ["a", "n"]], []),
        ("sibling", [["a"], ["a", "n"], []], ["b"]),
    ]
    ok = {"kind": "none", "at": 0}
    for name, existing, dest in setups:
        pre = [{"dest": p, "mode": "a", "n": n, "symm": symm, "chunks": [[[0, 1, 5]], [[1, 2, 7]]], "fault": ok,
                "noslash": False, "explicit_root": True} for p in existing]
        for k in range(len(base)):
            F_k = gen.feat(101, k)          # independent feature choices per case (gen.feat)
            for kind in ("neg", "excess", "excess_both", "tril", "dup"):
                for pos in range(len(base[k]) + 1):
                    ch = inject(base, k, kind, pos, n, symm)[:k + 1]
                    yield pre + [{"dest": dest, "mode": "a", "n": n, "symm": symm, "chunks": ch,
                                  "fault": {"kind": "invalid", "at": k, "what": kind}, "noslash": False, "explicit_root": True,
                                  "id_dtype": ["int64", "uint32", "uint64", "int32"][(k + pos) % 4]}]
        for k in range(len(base) + 1):
            F_k = gen.feat(102, k)          # independent feature choices per case (gen.feat)
            yield pre + [{"dest": dest, "mode": "a", "n": n, "symm": symm, "chunks": base[:k],
                          "fault": {"kind": "iter_raise", "at": k}, "noslash": False, "explicit_root": True}]
        for fk in ("crash_indexes", "crash_info", "crash_tables", "crash_after_tables", "bad_metadata", "none"):
            yield pre + [{"dest": dest, "mode": "a", "n": n, "symm": symm, "chunks": base,
                          "fault": {"kind": fk, "at": 0}, "noslash": False, "explicit_root": True}]
        # PROCESS DEATH before every file open of the writer (1 = before anything, ..., 3 + m = before the index step, one beyond),
        # followed by a second, undisturbed creation at the same place: the wreck must not be in its way
        for at in range(1, len(base) + 5):
            for again in (False, True):
                h = pre + [{"dest": dest, "mode": "a", "n": n, "symm": symm, "chunks": base,
                            "fault": {"kind": "kill", "at": at}, "noslash": False, "explicit_root": True}]
                if again:
                    h = h + [{"dest": dest, "mode": "a", "n": n, "symm": symm, "chunks": base[:2], "fault": ok,
                              "noslash": False, "explicit_root": True}]
                yield h


PATHS_M = [[], ["resolutions"], ["resolutions", "2"], ["resolutions", "7"]]


def mcool_cases():
    """The file that receives the new collection is a MULTI-RESOLUTION file (root format attribute HDF5::MCOOL, a level under
    /resolutions) and the destination is a new level: a failed level must not be listed either."""
    base = [[[0, 0, 1], [0, 1, 2]], [[0, 2, 1]], [[1, 1, 3], [2, 2, 1]]]
    n, symm = 3, True
    ok = {"kind": "none", "at": 0}
    pre = [{"dest": ["resolutions", "2"], "mode": "a", "n": n, "symm": symm, "chunks": [[[0, 1, 5]], [[1, 2, 7]]], "fault": ok,
            "noslash": False, "explicit_root": True}]
    dest = ["resolutions", "7"]
    faults = [{"kind": "iter_raise", "at": k} for k in range(len(base) + 1)] + \
             [{"kind": fk, "at": 0} for fk in ("crash_indexes", "crash_info", "crash_tables", "bad_metadata", "none")] + \
             [{"kind": "kill", "at": at} for at in range(1, len(base) + 5)]
    for fault in faults:
        chunks = base[:fault["at"]] if fault["kind"] == "iter_raise" else base
        yield pre + [{"dest": dest, "mode": "a", "n": n, "symm": symm, "chunks": chunks, "fault": fault, "noslash": False,
                      "explicit_root": True, "mark_mcool": True}]
    for k in range(len(base)):
        for kind in ("neg", "excess", "tril", "dup"):
            ch = inject(base, k, kind, 0, n, symm)[:k + 1]
            yield pre + [{"dest": dest, "mode": "a", "n": n, "symm": symm, "chunks": ch, "fault": {"kind": "invalid", "at": k, "what": kind},
                          "noslash": False, "explicit_root": True, "mark_mcool": True}]


def tlc_behaviours(tier, seed):
    """spec -> code: behaviours of the stepwise-writer model generated by TLC's random simulation (MC_CreateSim)."""
    import json
    import shutil
    import subprocess
    import tempfile
    from .. import tlc
    num = 400 if tier == "quick" else 6000
    meta = tempfile.mkdtemp(prefix="tlcsim_")
    try:
        cmd = tlc._java_cmd(("-XX:+UseParallelGC",), tmpdir=meta) + ["-simulate", f"num={num}", "-depth", "60", "-workers", "1", "-seed", str(seed + 5),
                                                       "-metadir", meta, "-noGenerateSpecTE", "-config", "MC_CreateSim.cfg", "MC_CreateSim.tla"]
        p = subprocess.run(cmd, cwd=tlc.SPEC_DIR, capture_output=True, text=True, timeout=1800)
    finally:
        shutil.rmtree(meta, ignore_errors=True)
    out = p.stdout
    if "Error:" in out:
        raise tlc.MachineryError("TLC simulation of MC_CreateSim reported an error:\n" + out[out.find("Error:"):][:2000])
    hists = {}
    for line in out.splitlines():
        if line.startswith('"[{'):
            h = json.loads(json.loads(line))
            hists[json.dumps(h, sort_keys=True)] = h
    if not hists:
        raise tlc.MachineryError("TLC simulation of MC_CreateSim produced no behaviour:\n" + out[-1500:])
    rng = random.Random(seed)
    strata = {}
    for h in hists.values():
        F_h = gen.feat(103, h)          # independent feature choices per case (gen.feat)
        strata.setdefault(tuple(c["fault"]["kind"] for c in h), []).append(h)
    want = 200 if tier == "quick" else 3000
    picked, keys = [], sorted(strata)
    while len(picked) < want and any(strata.values()):
        for k in keys:
            F_k = gen.feat(104, k)          # independent feature choices per case (gen.feat)
            if strata[k] and len(picked) < want:
                picked.append(strata[k].pop(rng.randrange(len(strata[k]))))
    for h in picked:
        F_h = gen.feat(105, h)          # independent feature choices per case (gen.feat)
        yield [{"dest": c["dest"], "mode": c["mode"], "n": 2, "symm": True, "chunks": c["chunks"], "fault": c["fault"],
                "noslash": False, "explicit_root": True} for c in h]


def cases(tier, seed):
    rng = random.Random(seed)
    for calls in tlc_behaviours(tier, seed):
        yield "cr.steps", {"paths": PATHS, "calls": calls, "source": "tlc-simulate"}
    for calls in systematic():
        yield "cr.steps", {"paths": PATHS, "calls": calls}
    for calls in mcool_cases():
        yield "cr.steps", {"paths": PATHS_M, "calls": calls}
    for _ in range(400 if tier == "quick" else 8000):
        yield "cr.steps", {"paths": PATHS, "calls": calls_for(rng, tier)}
    # other producers writing into a multi-collection file
    T = gen.REPRESENTATIVE_TABLES
    for h in range(120 if tier == "quick" else 1500):
        F_h = gen.feat(106, h)          # independent feature choices per case (gen.feat)
        tname = ["one_fixed", "two_fixed", "fixed_short", "variable"][F_h("m4@156", 4)]
        table = T[tname]
        mode = "symm" if F_h("m3@158", 3) else "square"
        prod = ["merge", "coarsen", "unordered"][F_h("m3@159", 3)]
        px = gen.random_store(rng, len(table), mode, density=0.8, maxval=3)
        px2 = gen.random_store(rng, len(table), mode, density=0.6, maxval=3)
        fk = rng.choice(["validator", "validator", "crash_indexes", "crash_info", "crash_tables", "none", "kill", "kill"] +
                        (["invalid"] if prod == "unordered" else ["invalid_source"]))
        dest = rng.choice([["a"], ["a", "n"], ["b"], []])
        existing = [p for p in PATHS if p != dest and not (dest and p[:len(dest)] == dest) and rng.random() < 0.6]
        yield "cr.producer", {"paths": PATHS, "table": table, "mode": mode, "producer": prod, "px": px, "px2": px2,
                              "existing": existing, "dest": dest, "buf": rng.choice([1, 2, 10 ** 6]), "k": rng.choice([2, 3]),
                              "fault": {"kind": fk, "at": rng.randint(0, 2) if fk != "kill" else rng.randint(0, 9), "what": rng.choice(["neg", "other", "other"])}}


def run(tier, seed, only_case=None):
    r = Run("C13", tier, seed, level="model_checking", replay=only_case is not None)
    r.rule = ("cr.steps: histories of 1-3 create() calls on one file (destinations root / group / nested group / sibling, modes w|a, "
              "URIs with and without leading slash); systematic part: one invalid record of each kind (negative, too large, both too "
              "large, lower triangle, duplicate) at every chunk index and position and an iterator failure before every chunk "
              "index, for six destination set-ups (new file, new group, group/nested group/root/sibling in a multi-collection "
              "file), plus injected failures in the table / index / attribute writers and a PROCESS DEATH (forked child, os._exit) before every "
              "file open of the writer, each also followed by an undisturbed re-creation over the wreck; random part: seeded histories. The real "
              "file is projected (h5py) at every chunk request and at the end; 200 (3000) BEHAVIOURS GENERATED BY TLC (random "
              "simulation of the writer model, spec/MC_CreateSim: 3 calls each with environment-chosen chunks, invalid records, "
              "iterator failures and crashes) are replayed the same way; cr.producer: merge / coarsen / unordered creation "
              "into a multi-collection file with a failure injected at chunk k or in the index/attribute writer. "
              "non-trivial = the history contains a fault.")
    r.assumptions = ["injected failures are Python exceptions at step boundaries and PROCESS DEATHS (os._exit in a forked child: no "
                     "handler, no finally, no HDF5 shutdown) right before every file open of the writer - each step opens and "
                     "closes the file itself, so the file is closed at these points; a death while HDF5 has the file open for "
                     "writing is the HDF5 library's crash consistency, not cooler's step ordering, and is not injected",
                     "a failed re-creation over a collection that was recognised before is outside the domain (exempted explicitly)"]
    if only_case is None:
        r.model_check("MC_Create", "MC_Create_quick.cfg" if tier == "quick" else "MC_Create_thorough.cfg")
        # documented limit of the domain: re-creating at the ROOT over an existing cooler leaves it half recognised (TLC refutes)
        r.expect_refuted("MC_Create", "MC_Create_rootlimit.cfg", "RootRecreateNeverHalfRecognised")
        cs = cases(tier, seed)
    else:
        cs = [only_case]
    deaths = {"cr.steps": 0, "cr.producer": 0}
    for drv, case, obs in run_cases(cs, chunk=8):
        if drv == "cr.steps":
            nt = any(c["fault"]["kind"] != "none" for c in case["calls"])
            deaths[drv] += sum(1 for o in obs.get("calls", []) if o["points"][-1].get("outcome") == "killed")
        else:
            nt = case["fault"]["kind"] != "none"
            deaths[drv] += 1 if obs.get("outcome") == "killed" else 0
        r.record(TRACE, drv, case, obs, nt)
    r.exhaustive = False
    r.extra["process_deaths_injected"] = deaths
    r.validate(TRACE)
    return r.finish()
