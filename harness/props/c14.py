"""C14 - table selectors and bin annotation return the rows and coordinates asked for."""
from __future__ import annotations

import random

from .. import gen
from ..core import Run, run_cases
from . import sel_drivers  # noqa: F401
from .c03 import slice_keys

TRACE = "SelectorsTrace"


def cases(tier, seed):
    rng = random.Random(seed)
    tables = list(gen.REPRESENTATIVE_TABLES.values()) + [gen.binnify([12, 5], 2)]
    # (1) selectors
    for h in range(90 if tier == "quick" else 1500):
        F_h = gen.feat(101, h)          # independent feature choices per case (gen.feat)
        table = tables[F_h("len_tables@18", len(tables))]
        n = len(table)
        mode = "symm" if F_h("m2@20", 2) else "square"
        px = gen.random_store(rng, n, mode, maxval=9)
        w = [rng.randint(0, 9) for _ in range(n)]
        which = ["bins", "pixels", "chroms"][F_h("m3@23", 3)]
        lens = gen.chrom_lens(table)
        if which == "bins":
            rows = [[t[0], t[1], t[2], w[k]] for k, t in enumerate(table)]
            wname = ["w", "chrom_x", "mychrom", "weight2", "chromosome"][F_h("d3_5@27", 5)]     # names that CONTAIN "chrom", too
            allcols = ["chrom", "start", "end", wname]
        elif which == "pixels":
            rows = px
            allcols = ["bin1_id", "bin2_id", "count"]
        else:
            rows = [[k, ln] for k, ln in enumerate(lens)]
            allcols = ["name", "length"]
        keys = slice_keys(len(rows)) if len(rows) <= 6 else \
            [{"kind": "slice", "a": [a] if a is not None else [], "b": [b] if b is not None else []}
             for a, b in [(None, None), (0, 3), (2, None), (None, -1), (-3, None), (-4, -1), (1, 1), (len(rows), None), (3, 8)]] + \
            [{"kind": "scalar", "a": [k], "b": []} for k in (0, 1, -1, len(rows) - 1)]
        qs = []
        for s in (rng.sample(keys, min(len(keys), 25))):
            ncols = rng.randint(1, len(allcols))
            idx = sorted(rng.sample(range(len(allcols)), ncols)) if rng.random() < 0.6 else list(range(len(allcols)))
            if rng.random() < 0.3:
                rng.shuffle(idx)
            single = len(idx) == 1 and rng.random() < 0.5
            qs.append({"s": s, "colidx": [i + 1 for i in idx], "colnames": [allcols[i] for i in idx], "single": single,
                       "explicit": rng.random() < 0.3})
        if which == "bins":
            # always: the chromosome column ALONE (given as a string and as a one-element list) on ranges that do not start at 0
            for a, b in ((2, None), (1, 3), (None, -1)):
                for single in (True, False):
                    qs.append({"s": {"kind": "slice", "a": [a] if a is not None else [], "b": [b] if b is not None else []},
                               "colidx": [1], "colnames": ["chrom"], "single": single, "explicit": False})
        joined = which == "pixels" and F_h("m2@48", 2) == 1          # the same selections through pixels(join=True)
        if joined:
            for q in qs:
                q["single"] = False
        yield "sel.table", {"table": table, "mode": mode, "px": px, "w": w, "which": which, "rows": rows, "allcols": allcols, "qs": qs,
                            "joined": joined, **({"wname": wname} if which == "bins" else {}),
                            "encoding": "enum" if F_h("m4@54", 4) else "int", **({"at": ["/resolutions/5", "/a/b"][F_h("m2@54", 2)]} if F_h("m5@54", 5) == 2 else {})}
    # (1b) indexes given as NumPy scalars of a narrow dtype, at the top of its range (tables with more than 127 / 255 rows)
    for h, nb in enumerate([16, 23] if tier == "quick" else [16, 17, 23, 24]):
        F_h = gen.feat(102, h)          # independent feature choices per case (gen.feat)
        table = gen.binnify([nb], 1)
        px = [[i, j, 1 + (i + j) % 5] for i in range(nb) for j in range(i, nb)]
        nrows = len(px)
        keys = [{"kind": "scalar", "a": [127], "b": [], "np": "int8"}, {"kind": "scalar", "a": [-1], "b": [], "np": "int8"},
                {"kind": "scalar", "a": [126], "b": [], "np": "int8"}, {"kind": "scalar", "a": [-128], "b": [], "np": "int8"},
                {"kind": "slice", "a": [-5], "b": [], "np": "int8"}, {"kind": "slice", "a": [120], "b": [127], "np": "int8"},
                {"kind": "slice", "a": [], "b": [-3], "np": "int16"}, {"kind": "scalar", "a": [100], "b": [], "np": "uint8"},
                {"kind": "scalar", "a": [nrows - 1], "b": [], "np": "int64"}, {"kind": "slice", "a": [3], "b": [-120], "np": "int8"}]
        if nrows > 255:
            keys += [{"kind": "scalar", "a": [255], "b": [], "np": "uint8"}, {"kind": "slice", "a": [250], "b": [255], "np": "uint8"},
                     {"kind": "scalar", "a": [254], "b": [], "np": "uint8"}]
        allcols = ["bin1_id", "bin2_id", "count"]
        qs = [{"s": s, "colidx": [1, 2, 3], "colnames": allcols, "single": False, "explicit": False} for s in keys]
        yield "sel.table", {"table": table, "mode": "symm", "px": px, "w": [0] * nb, "which": "pixels", "rows": px, "allcols": allcols,
                            "qs": qs, "joined": False, "encoding": "enum"}
    # (2) annotation
    for h in range(450 if tier == "quick" else 8000):
        F_h = gen.feat(103, h)          # independent feature choices per case (gen.feat)
        table = tables[F_h("len_tables@74", len(tables))]
        n = len(table)
        mode = "symm" if F_h("m2@76", 2) else "square"
        w = [rng.randint(0, 9) for _ in range(n)]
        px = gen.random_store(rng, n, mode, maxval=9)
        form = ["frame", "selector", "part", "part", "selector_cols", "join"][F_h("m6@79", 6)]
        binattrs = [[t[0], t[1], t[2], w[k]] for k, t in enumerate(table)]
        if form == "join":
            lo = rng.randint(0, len(px))
            hi = rng.randint(lo, len(px))
            pixels = [[k, px[k][0], px[k][1], px[k][2]] for k in range(lo, hi)]
            yield "sel.annotate", {"table": table, "mode": mode, "px": px, "w": w, "pixels": pixels, "bins_form": form, "part": [0, n],
                                   "lo": lo, "hi": hi, "binattrs": [b[:3] for b in binattrs], "encoding": "enum" if F_h("m3@86", 3) else "int"}
            continue
        # few pixels relative to the bin count (window path), many (whole-table path), none
        k = [0, 1, 2, 3, n, n + 1, 2 * n + 3][F_h("m7@89", 7)]
        pixels = [[rng.randint(0, 50) * 7 + i, rng.randrange(n), rng.randrange(n), rng.randint(1, 9)] for i in range(k)]
        if F_h("m5@91", 5) == 0:
            pixels.sort(key=lambda p: -p[3])                        # e.g. ranked by count
        rindex = None
        if F_h("m4@94", 4) == 1 and k:
            # labelled by a RangeIndex that is not 0..k-1: a positional slice / a reversed / a strided view of a numbered frame
            step = rng.choice([1, 1, 2, 3, -1, -2])
            start = rng.randint(0, 12) if step > 0 else rng.randint(0, 5) + (-step) * (k - 1)
            rindex = [start, start + step * k, step]
            pixels = [[start + step * i] + p[1:] for i, p in enumerate(pixels)]
        a, b = 0, n
        if form == "part":
            need = [p[1] for p in pixels] + [p[2] for p in pixels]
            lo, hi = (min(need), max(need) + 1) if need else (rng.randint(0, n - 1), n)
            a = rng.randint(0, lo)
            b = rng.randint(hi, n)
            if a == b:
                b = a + 1
        yield "sel.annotate", {"table": table, "mode": mode, "px": px, "w": w, "pixels": pixels, "bins_form": form, "part": [a, b],
                               "binattrs": binattrs, "encoding": "enum" if F_h("m3@109", 3) else "int",
                               "id_dtype": ["int64", "int32", "uint32"][F_h("m3@110", 3)], **({"rindex": rindex} if rindex else {}),
                               **({"at": "/resolutions/5"} if F_h("m6@111", 6) == 4 else {})}


def run(tier, seed, only_case=None):
    r = Run("C14", tier, seed, replay=only_case is not None)
    r.rule = ("sel.table: chroms/bins/pixels selectors on seven table shapes, sliced with every spelling (positive, negative, open, empty, "
              "beyond the end, scalar) and random column subsets (also single column -> Series, reordered columns), enum and integer "
              "chromosome encodings; sel.annotate: pixel subsets of 0, 1, 2, 3, n, n+1, 2n+3 pixels in arbitrary order with arbitrary "
              "index labels and int64/int32/uint32 ids against the bin table given as data frame, selector, column-restricted "
              "selector or a contiguous part that contains the needed bins, and pixels(join=True) on row ranges. "
              "non-trivial = at least one row / pixel.")
    r.assumptions = ["a partial bin table contains every bin the pixels refer to (as the property states)"]
    if only_case is None:
        r.model_check("MC_Selectors", "MC_Selectors.cfg")
        cs = cases(tier, seed)
    else:
        cs = [only_case]
    for drv, case, obs in run_cases(cs, chunk=8):
        r.record(TRACE, drv, case, obs, len(case.get("pixels", case.get("rows", []))) > 0)
    r.exhaustive = False
    r.validate(TRACE)
    return r.finish()
