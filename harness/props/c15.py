"""C15 - file-level operations preserve content and touch nothing else."""
from __future__ import annotations

import itertools
import random

from ..core import Run, run_cases
from . import store_drivers  # noqa: F401

TRACE = "StoreTrace"
NAMES = ["a", "b", "n"]
PATHS = [[]] + [[x] for x in NAMES] + [[x, y] for x in NAMES for y in NAMES]
FILES = ["f1", "f2"]


def is_prefix(a, b):
    return len(a) <= len(b) and b[:len(a)] == a


def gen_ops(rng, nops):
    """A random history respecting the syntactic domain rules of Store!InDomain."""
    ops = []
    made = {"f1": set(), "f2": set()}          # paths that probably exist (bias only; TLC decides everything)
    touched = set()
    for i in range(nops):
        kind = rng.choice(["create", "create", "cp", "cp", "mv", "ln", "lns", "lns"]) if i else "create"
        if kind == "create":
            f = rng.choice(FILES) if i else "f1"
            p = rng.choice(PATHS[:7] if rng.random() < 0.7 else PATHS)
            mode = "a" if (rng.random() < 0.8 or f not in touched) else "w"
            ops.append({"op": "create", "f": f, "p": p, "c": rng.randint(1, 3), "mode": mode,
                        "noslash": rng.random() < 0.3, "explicit_root": rng.random() < 0.5})
            if mode == "w":
                made[f] = set()
            made[f].add(tuple(p))
            touched.add(f)
            continue
        sf = rng.choice(FILES)
        same = rng.random() < 0.6 or kind == "mv"
        df = sf if same else ("f2" if sf == "f1" else "f1")
        cand = [list(x) for x in made[sf]] or [[]]
        sp = rng.choice(cand) if rng.random() < 0.8 else rng.choice(PATHS)
        dp = rng.choice(PATHS[1:] if rng.random() < 0.9 else PATHS)
        ow = rng.random() < 0.08
        if (same or kind in ("ln", "lns", "mv")) and not sp:
            sp = rng.choice(PATHS[1:4])
        if kind in ("ln", "mv") and is_prefix(sp, dp):
            dp = [x for x in (["b"], ["n"], ["a"]) if not is_prefix(sp, x)][0]
        if not same and not dp and kind == "cp" and df in touched and not ow:
            dp = rng.choice(PATHS[1:4])
        if kind == "lns" and same and is_prefix(dp, sp):
            continue
        if not same and not dp and kind in ("ln", "lns"):
            dp = rng.choice(PATHS[1:4])
        ops.append({"op": kind, "sf": sf, "sp": sp, "df": df, "dp": dp, "ow": ow, "noslash": rng.random() < 0.3})
        touched.add(df)
        made[df].add(tuple(dp))
        if kind == "mv":
            made[sf].discard(tuple(sp))
    return ops


def systematic():
    """create two collections (one nested), then every operation kind on every (src, dst) pair of a small path set."""
    base = [{"op": "create", "f": "f1", "p": ["a"], "c": 1, "mode": "w"},
            {"op": "create", "f": "f1", "p": ["a", "n"], "c": 2, "mode": "a"},
            {"op": "create", "f": "f2", "p": [], "c": 3, "mode": "w"}]
    small = [["a"], ["b"], ["a", "n"], ["b", "n"], ["n"]]
    for kind in ("cp", "mv", "ln", "lns"):
        for sf, df in (("f1", "f1"), ("f1", "f2")):
            if kind == "mv" and sf != df:
                continue
            for sp in small:
                for dp in small:
                    if kind in ("ln", "mv") and is_prefix(sp, dp):
                        continue
                    op = {"op": kind, "sf": sf, "sp": sp, "df": df, "dp": dp, "ow": False}
                    # follow-ups that make sharing / independence observable
                    for follow in ({"op": "create", "f": df, "p": dp, "c": 3, "mode": "a"},
                                   {"op": "create", "f": sf, "p": sp, "c": 3, "mode": "a"},
                                   {"op": "mv", "sf": sf, "sp": sp, "df": sf, "dp": ["b", "b"], "ow": False}):
                        yield base + [op, follow]


def cases(tier, seed):
    rng = random.Random(seed)
    sys_cases = list(systematic())
    if tier == "quick":
        sys_cases = rng.sample(sys_cases, 150)
    for ops in sys_cases:
        yield "st.history", {"paths": PATHS, "ops": ops}
    for _ in range(450 if tier == "quick" else 9000):
        yield "st.history", {"paths": PATHS, "ops": gen_ops(rng, rng.randint(2, 7 if tier == "quick" else 12))}


def run(tier, seed, only_case=None):
    r = Run("C15", tier, seed, replay=only_case is not None)
    r.rule = ("one case = a history of create(w|a) / cp / mv / ln hard / ln soft (external across files) / overwrite operations on two "
              "real files with collections at the root and at paths of depth <= 2 (URIs with and without leading slash): a "
              "systematic part (every operation kind on every source/destination pair of a small path set, each followed by a "
              "re-creation at the destination, at the source, and a move of the source, so that sharing and independence become "
              "observable) and seeded random histories of 2-7 (12) operations. After every operation both files are projected for "
              "all 13 paths (content through the API, recognition, listing). non-trivial = history contains a link or move.")
    r.assumptions = ["mv is judged within one file (its documented scope)",
                     "inputs outside Store!InDomain (link cycles, root as a link source, cross-file copy onto a non-empty root) are not "
                     "generated; if aliasing makes a later step fall outside the domain the rest of that history is not judged",
                     "collections in these histories are complete coolers (partial ones are C13's business)"]
    if only_case is None:
        r.model_check("MC_Store", "MC_Store_quick.cfg" if tier == "quick" else "MC_Store_thorough.cfg", timeout=3000)
        cs = cases(tier, seed)
    else:
        cs = [only_case]
    nsteps = 0
    for drv, case, obs in run_cases(cs, chunk=4):
        nsteps += len(obs.get("steps", ()))
        r.record(TRACE, drv, case, obs, any(o["op"] in ("mv", "ln", "lns") for o in case["ops"]))
    r.extra["operations_replayed"] = nsteps
    r.exhaustive = False
    r.validate(TRACE)
    return r.finish()
