"""C16 - text export agrees with the API; re-importing it reproduces the cooler."""
from __future__ import annotations

import itertools
import random

from .. import gen
from ..core import Run, run_cases
from . import coarsen_drivers, text_drivers  # noqa: F401
from .c05 import mk_records
from .c09 import cases as c09_cases

TRACE = "TextIOTrace"


def rand_region(rng, table):
    lens = gen.chrom_lens(table)
    c = rng.randrange(len(lens))
    s = rng.randint(0, lens[c] - 1)
    e = rng.randint(s + 1, lens[c])
    return [c, s, e]


def cases(tier, seed):
    rng = random.Random(seed)
    tables = list(gen.REPRESENTATIVE_TABLES.values())
    # (1) dump option combinations
    flags = list(itertools.product([False, True], repeat=5))          # fill, join, balanced, obids, obstarts
    nd = 520 if tier == "quick" else 9000
    for h in range(nd):
        F_h = gen.feat(101, h)          # independent feature choices per case (gen.feat)
        table = tables[F_h("len_tables@30", len(tables))]
        n = len(table)
        mode = "symm" if F_h("m3@32", 3) else "square"
        px = gen.random_store(rng, n, mode, maxval=5) if F_h("m12@33", 12) else []
        fill, join, balanced, obids, obstarts = flags[F_h("len_flags@34", len(flags))]
        rk = F_h("m4@35", 4)                                                     # 0: whole, 1: one region, 2-3: two regions
        o = {"hasr": rk >= 1, "r": rand_region(rng, table), "hasr2": rk >= 2, "r2": rand_region(rng, table),
             "fill": fill, "join": join, "balanced": balanced, "obids": obids, "obstarts": obstarts}
        yield "tx.dump", {"table": table, "mode": mode, "px": px, "o": o, "header": F_h("m5@38", 5) == 0,
                          "wexp": [rng.choice([0, 1, 2, -1]) for _ in range(n)] if balanced else [],
                          "chunk": rng.choice([1, 2, 3, 10 ** 6]), **({"at": ["/resolutions/10", "/a/b"][F_h("m2@40", 2)]} if F_h("m5@40", 5) == 3 else {}),
                          "prior": F_h("m6@41", 6) == 1, "out": ["stdout", "stdout", "fresh", "existing"][F_h("out", 4)],
                          "legacy_attrs": F_h("legacy", 4) == 2}
    # (2) field layouts at arbitrary, non-monotone column numbers
    nl = 220 if tier == "quick" else 4000
    for h in range(nl):
        F_h = gen.feat(102, h)          # independent feature choices per case (gen.feat)
        table = tables[F_h("len_tables@45", len(tables))]
        one_based = F_h("m2@46", 2) == 0
        tril = ["reflect", "none", "drop"][F_h("m3@47", 3)]
        has_x = F_h("m3@48", 3) == 1
        if F_h("m4@49", 4) != 3:
            ncols = rng.randint(5 if has_x else 4, 8)
            cols = rng.sample(range(ncols), 5 if has_x else 4)
            lay = dict(zip(["chrom1", "pos1", "chrom2", "pos2"] + (["x"] if has_x else []), cols))
            recs = mk_records(rng, table, rng.randint(1, 6), allow_bad=False, unknown_rate=0.05)
            if one_based:
                recs = [[r[0], r[1] + 1, r[2], r[3] + 1] for r in recs]
            # one record per pixel is not needed for pairs (they are counted); x values are summed per pixel
            xv = [rng.randint(1, 5) for _ in recs]
            yield "tx.layout", {"kind": "pairs", "table": table, "recs": recs, "one_based": one_based, "tril": tril, "layout": lay,
                                "ncols": ncols, "xvals": xv, "has_extra": False, "want_extra": [], "chunk": rng.choice([2, 1000])}
        else:
            n = len(table)
            ncols = rng.randint(4 if has_x else 3, 7)
            if F_h("move_ids", 2) == 0:
                # the ID columns relocated, too (--field bin1_id=<col> --field bin2_id=<col>)
                cols = rng.sample(range(ncols), 4 if has_x else 3)
                lay = dict(zip(["bin1_id", "bin2_id", "count"] + (["x"] if has_x else []), cols))
            else:
                cols = rng.sample(range(2, ncols), 2 if has_x else 1)
                lay = dict(zip(["count"] + (["x"] if has_x else []), cols))
            keys = rng.sample([(i, j) for i in range(n) for j in range(i, n)], rng.randint(1, min(6, n * (n + 1) // 2)))
            px = [[i, j, rng.randint(1, 9)] for i, j in sorted(keys)]
            xv = [rng.randint(1, 9) for _ in px]
            want = [[p[0], p[1], x] for p, x in zip(px, xv)]
            if one_based:
                px = [[p[0] + 1, p[1] + 1, p[2]] for p in px]
            yield "tx.layout", {"kind": "coo", "table": table, "px": px, "one_based": one_based, "tril": "reflect", "layout": lay,
                                "ncols": ncols, "xvals": xv, "has_extra": has_x, "want_extra": want, "chunk": rng.choice([2, 1000])}
    # (3) dump then load back
    for h in range(120 if tier == "quick" else 2000):
        F_h = gen.feat(103, h)          # independent feature choices per case (gen.feat)
        table = tables[F_h("len_tables@75", len(tables))]
        mode = "symm" if F_h("m2@76", 2) else "square"
        extra = {"names": ["usual", "unsorted", "numeric"][F_h("names", 3)]}
        if F_h("bins_spec", 2) == 0:
            # BINS as <chromsizes>:<bin size>: a fixed-width table
            lens = [[10, 7], [6, 6, 4], [9], [5, 12, 3, 8]][F_h("lens", 4)]
            bsz = [1, 2, 3][F_h("bsz", 3)]
            table = gen.binnify(lens, bsz)
            extra.update({"bins_spec": "chromsizes", "binsize": bsz})
        yield "tx.roundtrip", {"table": table, "mode": mode, "px": gen.random_store(rng, len(table), mode, maxval=9), **extra,
                               "fmt": "coo" if F_h("m4@78", 4) < 2 else "bg2", "one_based": F_h("m3@78", 3) == 0,
                               "chunk": rng.choice([1, 3, 10 ** 6]), "chunk2": rng.choice([1, 2, 1000]),
                               "max_merge": rng.choice([1, 2, 3, 200]), **({"at": "/resolutions/10"} if F_h("m5@80", 5) == 2 else {})}
    # (4) resolution-spec spellings of `cooler zoomify -r`
    for drv, case in c09_cases("thorough" if tier == "thorough" else "quick", seed):
        if drv == "zm.resspec":
            yield drv, case


def nontrivial(drv, case, obs):
    if drv in ("tx.dump", "tx.roundtrip"):
        return len(case["px"]) > 0
    return True


def run(tier, seed, only_case=None):
    r = Run("C16", tier, seed, replay=only_case is not None)
    r.rule = ("tx.dump: `cooler dump` on six table shapes x random stores x all 32 combinations of fill-lower / join / balanced / "
              "one-based ids / one-based starts x whole matrix, one region, two regions x header x chunk size; tx.layout: `cooler "
              "cload pairs` with chrom1/pos1/chrom2/pos2 (and a value field) at arbitrary non-monotone column numbers and `cooler "
              "load -f coo --field count=K --field x=J`; tx.roundtrip: dump as COO or bedGraph-2D (zero- and one-based), load back "
              "with the same bin table; zm.resspec: 13 resolution-spec spellings. non-trivial = non-empty store.")
    r.assumptions = ["balancing weights are powers of two / NaN (exact)", "only the 'count' column is dumped by the pixel dump"]
    if only_case is None:
        r.model_check("MC_TextIO", "MC_TextIO.cfg")
        r.expect_refuted("MC_TextIO", "MC_TextIO_pinned.cfg", "LayoutHonouredPinned")    # F7: pandas' column assignment is refuted
        cs = cases(tier, seed)
    else:
        cs = [only_case]
    for drv, case, obs in run_cases(cs, chunk=8):
        r.record(TRACE, drv, case, obs, nontrivial(drv, case, obs))
    r.exhaustive = False
    r.validate(TRACE)
    return r.finish()
