"""C17 - every cell of a single-cell file reads back as the matrix given for it."""
from __future__ import annotations

import random

from .. import gen
from ..core import Run, run_cases
from . import cells_drivers  # noqa: F401

TRACE = "CellsTrace"
CELLNAMES = ["cell1", "cell2", "A", "b.c", "cell-3_x", "with space", "10", "Z9", "sample.1.cool", "é",
             "rep1", "rep1 ", " lead", "tab\t"]          # names that differ only in surrounding white space are different names


def cases(tier, seed):
    rng = random.Random(seed)
    T = gen.REPRESENTATIVE_TABLES
    names = list(T)
    for h in range(150 if tier == "quick" else 3000):
        F_h = gen.feat(101, h)          # independent feature choices per case (gen.feat)
        table = T[names[F_h("len_names@18", len(names))]]
        n = len(table)
        mode = "symm" if F_h("m4@20", 4) else "square"
        m = 1 + F_h("m4@21", 4)
        cn = rng.sample(CELLNAMES, m)
        extra_kind = F_h("m3@23", 3)                       # 0: no extra columns, 1: single table with an extra column, 2: per-cell tables
        cells = []
        shared_extra = [rng.randint(0, 9) for _ in range(n)]
        for k, nm in enumerate(cn):
            F_k = gen.feat(102, k)          # independent feature choices per case (gen.feat)
            px = [] if (h + k) % 5 == 0 else gen.random_store(rng, n, mode, maxval=7)
            extra = [] if extra_kind == 0 else (shared_extra if extra_kind == 1 else [rng.randint(0, 9) for _ in range(n)])
            cells.append({"name": nm, "px": px, "extra": extra})
        yield "sc.create", {"table": table, "mode": mode, "cells": cells,
                            "bins_mode": "dict" if extra_kind == 2 or F_h("m7@31", 7) == 0 else "single",
                            "form": ["frame", "iter", "dict"][F_h("m3@32", 3)], "open": ["uri", "handle"][F_h("m2@32", 2)],
                            "ordered": F_h("m4@33", 4) != 2, "mergebuf": rng.choice([1, 3, 10 ** 6]),
                            # every 5th: float64 counts asked for through dtypes= (values are multiples of 1/4)
                            **({"scale": 4} if F_h("m5@35", 5) == 1 else {}), "labels": ["default", "perm", "offset"][F_h("m3@35", 3)],
                            # the path already holds a single-cell file of an EARLIER run with other cells (and one of the same name)
                            "prior_cells": [] if F_h("prior", 3) else ["old1", "old 2", cn[0]],
                            # the cells from this index on are ADDED by a second call in append mode
                            "batch2_from": [0, 0, 1, 2][F_h("batch2", 4)],
                            # column order of the bin table(s): the three standard columns need not come first
                            "bincols": ["std", "std", "extra_first", "extra_mid"][F_h("bincols", 4)]}


def run(tier, seed, only_case=None):
    r = Run("C17", tier, seed, replay=only_case is not None)
    r.rule = ("one case = (common bin table of six shapes, 1-4 cells with arbitrary names - dots, dashes, spaces, digits, non-ASCII - and "
              "arbitrary, including empty, matrices, int32 counts or float64 counts (quarters) requested through dtypes=; a single bin table, a single table with an extra column, or per-cell tables "
              "with per-cell extra columns; pixels as frame / iterator of chunks / dict; storage mode). The file is listed, "
              "recognised, every cell is read through the ordinary Cooler interface (URI or handle) and raw, and the HDF5 object "
              "addresses of the bin/chromosome columns are compared with the root's. non-trivial = >= 2 cells, one non-empty.")
    r.assumptions = ["cell names are legal HDF5 link names (no '/')"]
    if only_case is None:
        r.model_check("MC_Cells", "MC_Cells.cfg")
        r.model_check("MC_Store", "MC_Store_quick.cfg")
        cs = cases(tier, seed)
    else:
        cs = [only_case]
    for drv, case, obs in run_cases(cs, chunk=4):
        r.record(TRACE, drv, case, obs, len(case["cells"]) >= 2 and any(c["px"] for c in case["cells"]))
    r.exhaustive = False
    r.validate(TRACE)
    return r.finish()
