"""C18 - renaming chromosomes changes names only."""
from __future__ import annotations

import itertools
import random

from .. import gen
from ..core import Run, run_cases
from . import cells_drivers  # noqa: F401

TRACE = "CellsTrace"
POOL = ["chr1", "chr2", "chrX", "1", "2", "X", "a", "scaffold_0001_long_name", "b", "chr1_random", "z"]


def admissible_maps(names, rng, k):
    """k random partial maps old->new whose result has no duplicate names (incl. swaps, longer/shorter names)."""
    out = []
    tries = 0
    while len(out) < k and tries < 200:
        tries += 1
        dom = [x for x in names if rng.random() < 0.6]
        new = {x: rng.choice(POOL + [y for y in names]) for x in dom}
        res = [new.get(x, x) for x in names]
        if len(set(res)) == len(res) and any(new.get(x, x) != x for x in names):
            out.append(new)
    return out


def cases(tier, seed):
    rng = random.Random(seed)
    tables = [gen.binnify([4, 4], 2), gen.binnify([5, 3, 2], 2), gen.table_from_edges([[0, 1, 4], [0, 3, 5]]),
              gen.table_from_edges([[0, 3], [0, 2], [0, 4]]), gen.binnify([6], 2)]
    for h in range(220 if tier == "quick" else 4000):
        F_h = gen.feat(101, h)          # independent feature choices per case (gen.feat)
        table = tables[F_h("len_tables@33", len(tables))]
        nch = 1 + max(t[0] for t in table)
        names = rng.sample(POOL, nch)
        mode = "symm" if F_h("m3@36", 3) else "square"
        px = gen.random_store(rng, len(table), mode, maxval=9)
        chain = []
        cur = list(names)
        for _ in range(1 + F_h("m3@40", 3)):
            ms = admissible_maps(cur, rng, 1)
            if not ms:
                break
            m = ms[0]
            if F_h("m11@45", 11) == 0:
                m["not_a_chromosome"] = "whatever"        # names missing from the file are ignored
            chain.append([[a, b] for a, b in m.items()])
            cur = [m.get(x, x) for x in cur]
        if F_h("m9@49", 9) == 4 and nch >= 2:
            chain = [[[names[0], names[1]], [names[1], names[0]]]]   # a swap
        yield "rn.rename", {"table": table, "names": names, "mode": mode, "px": px, "renames": chain,
                            "encoding": "enum" if F_h("m2@52", 2) == 0 else "int",
                            # at the file root / in a nested group, alone or beside another collection with the same names
                            "group": ["/", "/resolutions/2", "/", "/a/b"][F_h("m4@54", 4)], "sibling": F_h("m8@54", 8) in (1, 2, 7)}


def many_cases(tier):
    # thousands of chromosomes: the enum header of the renamed table does / does not fit HDF5's 64 KiB object header
    for n, every, suffix in ([(3000, 2, "_renamed_to_a_much_longer_contig_name"), (1200, 1, "x")] if tier == "quick" else
                             [(3000, 2, "_renamed_to_a_much_longer_contig_name"), (1200, 1, "x"), (5000, 1, "_long_long_long_name"),
                              (2500, 3, "_unplaced_scaffold_with_a_long_accession")]):
        yield "rn.many", {"n": n, "every": every, "suffix": suffix, "px": [[0, 0, 5], [0, n - 1, 2], [7, 9, 1], [n - 2, n - 1, 3]]}


def big_cases(tier):
    # more than a million bins, not a multiple of 10^6; the renamed chromosomes include the last one
    for lens, ren in [([700001, 500000, 300002], [[1, "X"], [2, "the_last_one"]])] + \
                     ([([1000000, 1000001], [[0, "q"], [1, "r"]]), ([2500003], [[0, "only"]])] if tier != "quick" else []):
        total = sum(lens)
        yield "rn.big", {"lens": lens, "names0": gen.CHROMNAMES[:len(lens)], "renames": ren,
                         "px": [[0, 0, 5], [0, total - 1, 2], [total // 2, total // 2 + 1, 1], [total - 2, total - 1, 3]]}


def run(tier, seed, only_case=None):
    r = Run("C18", tier, seed, replay=only_case is not None)
    r.rule = ("one case = (cooler on 1-3 chromosomes, fixed / variable / one-bin tables; chain of 1-3 partial injective renaming maps "
              "with longer/shorter names, swaps, names not present; enum or integer chromosome encoding; collection at the file root or in a nested group, alone or beside another collection "
              "with the same chromosome names, which must stay as it was). After every renaming the "
              "SAME Cooler object and a freshly opened one are projected (chromosome names and table, lengths, bin labels and "
              "coordinates, pixels, extent and two-region matrix fetch by every new name, lookups by vanished old names) together "
              "with everything else in the file raw (bins, pixels, indexes, attributes) as one canonical string. non-trivial always.")
    r.assumptions = ["renaming maps are injective on the result (no two chromosomes get the same name)"]
    if only_case is None:
        r.model_check("MC_Cells", "MC_Cells.cfg")
        cs = list(big_cases(tier)) + list(cases(tier, seed)) + list(many_cases(tier))
    else:
        cs = [only_case]
    for drv, case, obs in run_cases(cs, chunk=4):
        r.record(TRACE, drv, case, obs, drv in ("rn.many", "rn.big") or len(case["renames"]) > 0)
    r.exhaustive = False
    r.validate(TRACE)
    return r.finish()
