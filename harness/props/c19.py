"""C19 - region and URI strings parse to exactly what they denote, or are refused."""
from __future__ import annotations

import random

from ..core import Run, run_cases
from .region_drivers import cps

TRACE = "RegionTrace"
NAMES = ["c", "chr1", "chr-1", "a.b", "x y", "7", "chrUn_gl000220", "HLA-A*01", "2L", "chr1_KI270706v1_random", "é"]
UNITS = {3: ["k", "K", "kb", "Kb", "KB", "kB"], 6: ["m", "M", "Mb", "MB", "mb"], 9: ["g", "G", "Gb", "GB"]}


def with_commas(d, rng):
    """Thousands separators (proper grouping, or - the parser only strips them - anywhere but first)."""
    if len(d) < 4 or rng.random() < 0.5:
        return d
    out = []
    for k, ch in enumerate(d):
        if k and (len(d) - k) % 3 == 0:
            out.append(",")
        out.append(ch)
    return "".join(out)


def numeral(rng, maxdigits=9):
    """A numeral that denotes an integer: plain / with commas / decimal multiple of k, M, G."""
    kind = rng.choice(["plain", "plain", "commas", "unit", "unit", "unit"])
    if kind in ("plain", "commas"):
        n = rng.choice([0, 1, 9, 10, 99, 100, 999, 1000, 1001, 12345, 999999, 1000000, 123456789, rng.randint(0, 10 ** maxdigits)])
        d = str(n)
        return {"ip": cps(with_commas(d, rng) if kind == "commas" else d), "point": False, "fp": [], "unit": []}
    e = rng.choice([3, 3, 6, 6, 9])
    unit = rng.choice(UNITS[e])
    ip = str(rng.choice([0, 1, 2, 5, 10, 12, 99, 100, 250, rng.randint(0, 2000)]))
    if e == 9:
        ip = str(rng.choice([0, 1, 2]))
    nd = rng.randint(0, min(e, 6))
    point = nd > 0 or rng.random() < 0.2
    fp = "".join(rng.choice("0123456789") for _ in range(nd))
    if rng.random() < 0.3:
        fp = fp + "0" * rng.randint(1, 2)                 # trailing zeros beyond the exponent are still integral
    if e == 9 and ip == "2":
        fp = ("0" + fp[1:]) if fp else fp                  # keep below 2^31 is not required, but stay readable
    return {"ip": cps(with_commas(ip, rng)), "point": point, "fp": cps(fp) if point else [], "unit": cps(unit)}


def num_text(n):
    return n["ip"] + ([46] + n["fp"] if n["point"] else []) + n["unit"]


def value(n):
    from decimal import Decimal
    ip = "".join(chr(c) for c in n["ip"]).replace(",", "")
    fp = "".join(chr(c) for c in n["fp"])
    u = "".join(chr(c) for c in n["unit"]).upper()
    e = {"": 0, "K": 3, "KB": 3, "M": 6, "MB": 6, "G": 9, "GB": 9}[u]
    return Decimal(ip + ("." + fp if fp else "")).scaleb(e)


def cases(tier, seed):
    rng = random.Random(seed)
    # (1) well-formed regions from the grammar
    n1 = 6000 if tier == "quick" else 150000
    k = 0
    while k < n1:
        name = rng.choice(NAMES)
        form = rng.choice(["bare", "closed", "closed", "closed", "open"])
        r = {"name": cps(name), "has": form != "bare", "s": numeral(rng), "open": form == "open", "e": numeral(rng)}
        if form == "closed" and value(r["e"]) < value(r["s"]):
            r["s"], r["e"] = r["e"], r["s"]
        text = r["name"] + ([58] + num_text(r["s"]) + [45] + ([] if r["open"] else num_text(r["e"])) if r["has"] else [])
        yield "rg.parse", {"r": r, "text": text}
        k += 1
    # every mantissa d.ddd x k (the float-scaling trap) in the thorough tier; a sample otherwise
    mant = [f"{a}.{b:03d}" for a in range(0, 3) for b in range(0, 1000)]
    if tier == "quick":
        mant = rng.sample(mant, 1500)
    for m in mant:
        ip, fp = m.split(".")
        for unit in (["k"] if tier == "quick" else ["k", "M"]):
            s = {"ip": cps(ip), "point": True, "fp": cps(fp), "unit": cps(unit)}
            r = {"name": cps("chr1"), "has": True, "s": s, "open": True, "e": s}
            yield "rg.parse", {"r": r, "text": r["name"] + [58] + num_text(s) + [45]}
    # (2) malformed strings of the kinds the property lists
    bad = {
        "empty_name": [":1-2", ":10,000-20,000", " :5-6", ":"],
        "missing_hyphen": ["chr1:100", "chr1:100 200", "chr1:1k", "c:5,000"],
        "negative": ["chr1:-5-10", "chr1:-5--1", "c:-1-", "chr1:5--10"],
        "non_numeric": ["chr1:abc-10", "chr1:10-xyz", "chr1:ten-twenty", "c:!-5", "chr1:1e3-2e3", "chr1:-"],
        "reversed": ["chr1:10-5", "chr1:2k-1k", "chr1:1M-999,999", "c:1,000-999"],
        "unknown_unit": ["chr1:10x-20x", "chr1:1T-2T", "chr1:5bp-6bp", "chr1:1kk-2kk", "chr1:100b-200b", "chr1:1kbp-2kbp", "c:3q-",
                         # the unknown unit on ONE coordinate only, and units that merely START with a known one
                         "chr1:1kb-2kbp", "chr1:0-2Mbp", "chr1:1-2kbs", "c:1-5kbx", "chr1:1kbp-2", "chr1:1Mbp-", "chr1:1-2Gbps",
                         "chr1:1k-2kilo", "chr1:1-2mbp", "chr1:0-1kB2"],
        # text after the end coordinate / a second colon: the string denotes nothing
        "trailing": ["chr1:1-2 3", "chr1:1-2-3", "chr1:1-2:5", "chr1:1-2k 7M", "chr1:1-2;drop", "chr1:5-6-", "c:1-2-", "chr1:1-2 chr2",
                     "chr1:1-2:", "chr1::1-2"],
    }
    for kind, texts in bad.items():
        for t in texts:
            for ws in (False, True):
                yield "rg.malformed", {"kind": kind, "text": cps(t), "with_sizes": ws}
    # (3) bounds and unknown chromosomes
    sizes = [["chr1", 1000], ["c", 10], ["x y", 500]]
    for name, ln in sizes:
        for s, e in [(0, ln), (0, 0), (ln, ln), (1, ln - 1), (5, 5)]:
            yield "rg.bounds", {"sizes": sizes, "reg": [name, [s], [e]], "expect": "ok", "name": name, "want_s": s, "want_e": e}
            yield "rg.bounds", {"sizes": sizes, "reg": f"{name}:{s}-{e}", "expect": "ok", "name": name, "want_s": s, "want_e": e}
        yield "rg.bounds", {"sizes": sizes, "reg": name, "expect": "ok", "name": name, "want_s": 0, "want_e": ln}
        yield "rg.bounds", {"sizes": sizes, "reg": [name, [], []], "expect": "ok", "name": name, "want_s": 0, "want_e": ln}
        yield "rg.bounds", {"sizes": sizes, "reg": [name, [3], []], "expect": "ok", "name": name, "want_s": 3, "want_e": ln}
        yield "rg.bounds", {"sizes": sizes, "reg": f"{name}:3-", "expect": "ok", "name": name, "want_s": 3, "want_e": ln}
        yield "rg.bounds", {"sizes": sizes, "reg": [name, [], [4]], "expect": "ok", "name": name, "want_s": 0, "want_e": 4}
        yield "rg.bounds", {"sizes": sizes, "reg": f"{name}:{ln}-", "expect": "ok", "name": name, "want_s": ln, "want_e": ln}
        yield "rg.bounds", {"sizes": sizes, "reg": [name, [ln], []], "expect": "ok", "name": name, "want_s": ln, "want_e": ln}
        for reg in ([name, [0], [ln + 1]], f"{name}:0-{ln + 1}", [name, [ln + 1], [ln + 2]], [name, [-1], [1]], [name, [5], [4]],
                    f"{name}:{ln}-{ln + 1}", f"{name}:0-{ln * 10}",
                    # an open end that starts beyond the chromosome
                    f"{name}:{ln + 1}-", [name, [ln + 1], []], f"{name}:{ln * 5}-", [name, [ln * 5], []], [name, [-2], []]):
            yield "rg.bounds", {"sizes": sizes, "reg": reg, "expect": "refuse", "name": name, "want_s": 0, "want_e": 0}
    for reg in ("chrZ", "chrZ:1-2", ["nope", [0], [1]], ["chr1 ", [0], [1]], "CHR1:0-5"):
        yield "rg.bounds", {"sizes": sizes, "reg": reg, "expect": "refuse", "name": "", "want_s": 0, "want_e": 0}
    # (4) format then parse
    for _ in range(400 if tier == "quick" else 20000):
        s = rng.choice([0, 1, 999, 1000, 10 ** 6, rng.randint(0, 10 ** rng.randint(1, 12))])
        e = s + rng.choice([0, 1, 1000, rng.randint(0, 10 ** 9)])
        yield "rg.roundtrip", {"name": cps(rng.choice(NAMES)), "s": cps(str(s)), "e": cps(str(e))}
    # (5) URIs
    files = ["a.cool", "/tmp/x/y.mcool", "rel/dir/file.cool", "file with space.cool", "weird:name.cool", "C:\\data\\f.cool"]
    groups = ["", "resolutions/1000", "a", "a/b/c", "cells/cell 1"]
    for f in files:
        yield "rg.uri", {"kind": "ok", "u": {"file": cps(f), "sep": False, "slash": False, "group": []}, "text": cps(f)}
        for g in groups:
            for slash in (False, True):
                u = {"file": cps(f), "sep": True, "slash": slash, "group": cps(g)}
                yield "rg.uri", {"kind": "ok", "u": u, "text": cps(f) + [58, 58] + ([47] if slash else []) + cps(g)}
        yield "rg.uri", {"kind": "bad", "u": {"file": cps(f), "sep": True, "slash": True, "group": []}, "text": cps(f + "::/a::/b")}


def run(tier, seed, only_case=None):
    r = Run("C19", tier, seed, replay=only_case is not None)
    r.rule = ("rg.parse: region strings generated from the grammar (11 chromosome names with '-', '.', digits, inner spaces, non-ASCII; "
              "coordinates plain, with thousands separators, or as decimal multiples of k/kb/M/Mb/G/Gb in every case spelling with "
              "0-6 fractional digits that denote integers; closed / open / bare) plus mantissas d.ddd x k (all 3000 in the thorough "
              "tier): TLC re-derives the text from the structure (generatorIsGrammar) and computes the exact denotation on digit "
              "sequences; rg.malformed: 33 strings of the six malformed kinds; rg.bounds: ranges beyond the chromosome, negative, "
              "reversed, unknown chromosomes, defaults; rg.roundtrip: format (plain, commas, spaced) then parse for coordinates up "
              "to 10^12; rg.uri: 66 URI spellings. non-trivial = coordinates present.")
    r.assumptions = ["numerals that do not denote an integer (1.2345k) are outside the domain",
                     "chromosome names have no leading/trailing blanks and no ':'"]
    if only_case is None:
        r.model_check("MC_Region", "MC_Region.cfg")
        cs = cases(tier, seed)
    else:
        cs = [only_case]
    for drv, case, obs in run_cases(cs, chunk=256):
        r.record(TRACE, drv, case, obs, drv != "rg.parse" or case["r"]["has"])
    r.exhaustive = False
    r.validate(TRACE)
    return r.finish()
