"""C20 - generated bin tables tile the genome; a reported bin size is always true."""
from __future__ import annotations

import itertools
import random

from .. import gen
from ..core import Run, run_cases
from . import ext_drivers  # noqa: F401

TRACE = "ExtentTrace"


def cases(tier, seed):
    rng = random.Random(seed)
    # fixed-width binning: all chromosome-size vectors x widths
    maxlen, maxw = (6, 7) if tier == "quick" else (9, 10)
    combos = []
    for m in (1, 2, 3):
        lens_all = list(itertools.product(range(1, maxlen + 1), repeat=m))
        if m == 3:
            lens_all = rng.sample(lens_all, 40 if tier == "quick" else 400)
        if m == 2 and tier == "quick":
            lens_all = rng.sample(lens_all, 24)
        for lens in lens_all:
            for b in range(1, maxw + 1):
                combos.append((list(lens), b))
    if tier == "quick":
        combos = rng.sample(combos, 260)
    combos += [([1000, 999, 1], 250), ([12345, 678], 1000), ([5, 5, 5], 5), ([100], 100), ([100], 101), ([7], 1),
               # widths whose reciprocal is not exact in binary floating point, lengths that are multiples of them
               ([490, 343], 49), ([980, 99], 98), ([1030, 515], 103), ([749], 107), ([1127, 161], 161), ([935], 187)]
    for k, (lens, b) in enumerate(combos):
        F = gen.feat(7, k)
        yield "ext.binnify", {"lens": lens, "b": b, "relbase": F("relbase", 2), "header": F("header", 3) == 0,
                              "out": ["stdout", "fresh", "existing"][F("out", 3)]}
    # inference on every valid table
    if tier == "quick":
        tables = list(gen.all_tables(2, 4)) + rng.sample(list(gen.all_tables(2, 5)), 150)
    else:
        tables = list(gen.all_tables(2, 5)) + rng.sample(list(gen.all_tables(3, 4)), 1200) + list(gen.all_tables(1, 8))
    tables += list(gen.REPRESENTATIVE_TABLES.values())
    tables += [gen.binnify([490, 343], 49), gen.binnify([721], 103), gen.binnify([980, 100], 98)]
    tables += [gen.binnify([7, 5], 3), gen.binnify([6, 6, 2], 2), gen.binnify([9], 4), gen.binnify([3, 7, 2], 5),
               [[0, 0, 10], [0, 10, 20], [0, 20, 45]], [[0, 0, 10], [0, 10, 20], [1, 0, 25]],
               [[0, 0, 25], [1, 0, 10], [1, 10, 20]], [[0, 0, 10], [0, 10, 15], [1, 0, 10], [1, 10, 20], [1, 20, 21]]]
    # large bins whose widths differ by very little RELATIVE to their size (an equal-count segmentation rounded to integers):
    # variable all the same
    tables += [gen.table_from_edges([[0, 1000000, 2000001, 3000002, 3500000]]),
               gen.table_from_edges([[0, 100000, 200001, 250000], [0, 100000, 150000]]),
               gen.table_from_edges([[0, 1000000, 2000000, 3000010, 3000020]]),
               gen.binnify([3500000, 1200000], 1000000)]
    for k, t in enumerate(tables):
        # row labels of the data frame: 0..n-1, shifted, or a permutation (the table itself is in order either way)
        yield "ext.binsize", {"table": t, "categorical": [True, False, "lexical", False][k % 4], "index": ["default", "offset", "sorted"][k % 3],
                              "names": ["usual", "unsorted"][(k // 2) % 2], "prior_fixed": gen.feat(201, k)("prior", 3) == 1}


def run(tier, seed, only_case=None):
    r = Run("C20", tier, seed, replay=only_case is not None)
    r.rule = ("ext.binnify: chromosome-size vectors (lengths 1..6 / 1..9, 1-3 chromosomes) x widths through util.binnify, "
              "`cooler makebins` (with --rel-ids, --header) and cli parse_bins; ext.binsize: every valid bin table with <= 2 "
              "chromosomes of length <= 4 (quick) / <= 5 plus sampled 3-chromosome tables (thorough), all compositions "
              "(uniform, shorter or LONGER last bin, one bin per chromosome, variable) with default, shifted or permuted row labels through get_binsize, get_chromsizes and "
              "the attributes of a cooler created on the table. non-trivial = more than one bin.")
    r.assumptions = ["chromosome names a..e; sizes below 2^31"]
    if only_case is None:
        r.model_check("MC_Extent", "MC_Extent_quick.cfg" if tier == "quick" else "MC_Extent_thorough.cfg")
        r.expect_refuted("MC_Extent", "MC_Extent_loose.cfg", "ReportedSizeTrueLoose")    # F1: the pinned bin-size inference is refuted
        cs = cases(tier, seed)
    else:
        cs = [only_case]
    for drv, case, obs in run_cases(cs, chunk=8):
        nt = (len(case["table"]) > 1) if drv == "ext.binsize" else (sum(case["lens"]) > case["b"])
        r.record(TRACE, drv, case, obs, nt)
    r.exhaustive = False
    r.validate(TRACE)
    return r.finish()
