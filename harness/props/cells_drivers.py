"""Drivers for single-cell files (C17) and chromosome renaming (C18)."""
from __future__ import annotations

import os

import numpy as np

from .. import gen, project
from ..core import driver


def _addr(dset):
    import h5py
    return int(h5py.h5o.get_info(dset.id).addr)


@driver("sc.create")
def sc_create(case, ctx):
    import cooler
    import h5py
    table, mode = case["table"], case["mode"]
    symm = mode == "symm"
    path = ctx.path(".scool")
    cells = case["cells"]
    has_extra = any(c["extra"] for c in cells)
    if case["bins_mode"] == "single":
        bins = gen.bins_frame(table, extra={"w": cells[0]["extra"]} if has_extra else None)
    else:
        bins = {c["name"]: gen.bins_frame(table, extra={"w": c["extra"]} if c["extra"] else None) for c in cells}
    order = {"extra_first": ["w", "chrom", "start", "end"], "extra_mid": ["chrom", "w", "start", "end"]}.get(case.get("bincols"))
    if order:                                                      # the standard columns do not come first
        if isinstance(bins, dict):
            bins = {k: (b[order] if "w" in b.columns else b) for k, b in bins.items()}
        elif "w" in bins.columns:
            bins = bins[order]
    if case.get("labels") == "offset":                            # the bin table(s) with shifted row labels as well
        for b in ([bins] if not isinstance(bins, dict) else bins.values()):
            b.index = b.index + 100
    elif case.get("labels") == "perm" and isinstance(bins, dict):
        # per-cell tables whose row labels DIFFER from cell to cell (every second one reversed, e.g. left over from sorting)
        for k, b in enumerate(bins.values()):
            if k % 2 == 1:
                b.index = b.index[::-1]
    pixels = {}
    scale = case.get("scale", 1)
    kw = {}
    if scale != 1:
        kw["dtypes"] = {"count": np.float64}                     # the caller's dtype for a standard column
    for c in cells:
        fr = gen.pixels_frame(c["px"])
        if scale != 1:
            fr["count"] = fr["count"].astype(np.float64) / scale  # case values are in units of 1/scale
        if case.get("labels") == "perm":                           # row labels: a permutation of 0..k-1
            import random as _random
            lab = list(range(len(fr)))
            _random.Random(13 * len(fr) + 1).shuffle(lab)
            fr.index = lab
        elif case.get("labels") == "offset":
            fr.index = fr.index + 100
        if case["form"] == "iter":
            h = len(fr) // 2
            pixels[c["name"]] = iter([fr.iloc[:h], fr.iloc[h:]])
        elif case["form"] == "dict":
            pixels[c["name"]] = {k: fr[k].values for k in fr.columns}
        else:
            pixels[c["name"]] = fr
    if case.get("prior_cells"):
        # an earlier run wrote another single-cell file to the same path (default mode: the file is replaced by the next run)
        pb = gen.bins_frame(table)
        cooler.create_scool(path, pb, {nm: gen.pixels_frame([[0, 0, 9]]) for nm in case["prior_cells"]}, ordered=True,
                            symmetric_upper=symm)
    k2 = case.get("batch2_from", 0)
    batches = [(cells, {})] if not (0 < k2 < len(cells)) else [(cells[:k2], {}), (cells[k2:], {"mode": "a"})]
    for part, mkw in batches:
        # (a second batch of cells is ADDED to the file in append mode)
        pnames = [c["name"] for c in part]
        pbins = bins if not isinstance(bins, dict) else {nm: bins[nm] for nm in pnames}
        ppix = {nm: pixels[nm] for nm in pnames}
        if case.get("ordered", True):
            cooler.create_scool(path, pbins, ppix, ordered=True, symmetric_upper=symm, **kw, **mkw)
        else:
            # the default of create_scool: every cell goes through unordered creation (temporary files, merge)
            cooler.create_scool(path, pbins, ppix, symmetric_upper=symm, mergebuf=case.get("mergebuf", 3), temp_dir=ctx.subdir(),
                                **kw, **mkw)
    listed = [s[len("/cells/"):] if s.startswith("/cells/") else "?" + s for s in cooler.fileops.list_scool_cells(path)]
    out = []
    names = gen.CHROMNAMES
    with h5py.File(path, "r") as f:
        root_bins_addr = [_addr(f["bins"][k]) for k in ("chrom", "start", "end")]
        root_chroms_addr = [_addr(f["chroms"][k]) for k in ("name", "length")]
        root_bins = [[int(a), int(b), int(c)] for a, b, c in zip(f["bins/chrom"][:], f["bins/start"][:], f["bins/end"][:])]
        ncells = int(f.attrs.get("ncells", -1))
        for c in cells:
            g = f["cells"][c["name"]]
            clr = cooler.Cooler(g) if case["open"] == "handle" else None
            raw = project.raw_collection(g, scale=scale)
            item = {"name": c["name"], "raw": raw, "last_batch": not (0 < k2 < len(cells)) or cells.index(c) >= k2,
                    "bins_addr": [_addr(g["bins"][k]) for k in ("chrom", "start", "end")],
                    "chroms_addr": [_addr(g["chroms"][k]) for k in ("name", "length")]}
            if clr is None:
                clr = cooler.Cooler(path + "::/cells/" + c["name"])
            p = clr.pixels()[:]
            item["pixels"] = project.pixel_rows(p, ["bin1_id", "bin2_id", "count"], scale)
            sp = clr.matrix(balance=False, sparse=True)[:, :]
            item["sparse"] = [[int(a), int(b), project.to_int(v * scale)] for a, b, v in zip(sp.row, sp.col, sp.data)]
            b = clr.bins()[:]
            item["bins"] = [[names.index(str(ch)), int(s), int(e)] for ch, s, e in zip(b["chrom"], b["start"], b["end"])]
            item["extra"] = project.ints(b["w"].values) if "w" in b.columns else []
            out.append(item)
    # cells are collections of their own: a bin column stored for ONE cell afterwards (as balancing does) belongs to that cell
    from cooler.create import append
    first = path + "::/cells/" + cells[0]["name"]
    append(first, "bins", {"later": np.arange(len(table), dtype=float)})
    leaked = []
    with h5py.File(path, "r") as f:
        if "later" in f["bins"]:
            leaked.append("/")
        for c in cells[1:]:
            if "later" in f["cells"][c["name"]]["bins"]:
                leaked.append(c["name"])
        own = "later" in f["cells"][cells[0]["name"]]["bins"]
    return {"is_scool": bool(cooler.fileops.is_scool_file(path)), "listed": listed, "cells": out, "ncells": ncells,
            "root_bins": root_bins, "root_bins_addr": root_bins_addr, "root_chroms_addr": root_chroms_addr,
            "later_column_own": own, "later_column_leaked": leaked}


def _sel_fetch(sels, names, nch):
    """Name-based fetches through GIVEN selector objects (matrix, bins, pixels): per chromosome [rows of bins, rows of pixels,
    matrix total] or the error class."""
    out = []
    for c in range(nch):
        try:
            m = sels["matrix"].fetch(names[c])
            out.append([int(len(sels["bins"].fetch(names[c]))), int(len(sels["pixels"].fetch(names[c]))), project.to_int(m.sum())])
        except Exception as ex:
            out.append([-1, -1, -1])
    return out


def _mksels(clr):
    return {"matrix": clr.matrix(balance=False, sparse=True), "bins": clr.bins(), "pixels": clr.pixels()}


def _view(clr, table, known_old, old_sels=None):
    nch = 1 + max(t[0] for t in table)
    names = [str(x) for x in clr.chromnames]
    ct = clr.chroms()[:]
    b = clr.bins()[:]
    p = clr.pixels()[:]
    fetches = []
    for c in range(nch):
        c2 = (c + 1) % nch
        q = {"c": c, "c2": c2, "err": ""}
        try:
            lo, hi = clr.extent(names[c])
            q["extent"] = [int(lo), int(hi)]
            m = clr.matrix(balance=False, sparse=True).fetch(names[c], (names[c2], None, None))
            q["matrix"] = [[int(a), int(bb), project.to_int(v)] for a, bb, v in zip(m.row, m.col, m.data)]
        except Exception as ex:
            q = {"c": c, "c2": c2, "err": type(ex).__name__, "extent": [0, 0], "matrix": []}
        fetches.append(q)
    old = []
    for nm in known_old:
        if nm in names:
            continue
        try:
            clr.extent(nm)
            err = ""
        except Exception as ex:
            err = type(ex).__name__
        old.append({"name": nm, "err": err})
    pj = clr.pixels(join=True)[:]
    sel_new = _sel_fetch(_mksels(clr), names, nch)
    return {"sel_new": sel_new, "sel_old": _sel_fetch(old_sels, names, nch) if old_sels else sel_new,
            "join_chroms": [[str(a), str(b)] for a, b in zip(pj["chrom1"], pj["chrom2"])],
            "chromnames": names, "chromtable_names": [str(x) for x in ct["name"]],
            "chromlens": project.ints(clr.chromsizes.values),
            "bin_chroms": [str(x) for x in b["chrom"]], "bin_coords": [[int(s), int(e)] for s, e in zip(b["start"], b["end"])],
            "pixels": project.pixel_rows(p, ["bin1_id", "bin2_id", "count"]), "fetches": fetches, "old_lookups": old}


def _raw_rest(path, group="/", with_names=False):
    import h5py
    with h5py.File(path, "r") as f:
        f = f[group]
        d = {"bins_chrom": [int(x) for x in f["bins/chrom"][:]], "bins_start": [int(x) for x in f["bins/start"][:]],
             "bins_end": [int(x) for x in f["bins/end"][:]], "lengths": [int(x) for x in f["chroms/length"][:]],
             "pixels": {k: [project.to_int(x) for x in f["pixels"][k][:]] for k in f["pixels"]},
             "indexes": {k: [int(x) for x in f["indexes"][k][:]] for k in f["indexes"]},
             "attrs": {k: str(project.attr(v)) for k, v in f.attrs.items()}}
        if with_names:
            d["names"] = [x.decode() for x in f["chroms/name"][:]]
    return project.canon_json(d)


@driver("rn.rename")
def rn_rename(case, ctx):
    import cooler
    import h5py
    table, mode = case["table"], case["mode"]
    path = ctx.path()
    names0 = case["names"]
    group = case.get("group", "/")
    uri = path + "::" + group
    if case.get("sibling"):
        # another collection in the same file (at the root when the target is nested) with the SAME chromosome names
        sib = "/" if group != "/" else "/other"
        cooler.create_cooler(path + "::" + sib, gen.bins_frame(table, names0), gen.pixels_frame(case["px"][:1]), ordered=True,
                             symmetric_upper=mode == "symm")
    cooler.create_cooler(uri, gen.bins_frame(table, names0), gen.pixels_frame(case["px"]), ordered=True,
                         symmetric_upper=mode == "symm", mode="a")
    if case["encoding"] == "int":
        # the integer encoding cooler itself falls back to when the enum header would be too large
        with h5py.File(path, "r+") as f:
            g = f[group]
            ids = g["bins/chrom"][:].astype("int32")
            del g["bins/chrom"]
            ds = g["bins"].create_dataset("chrom", data=ids, dtype="int32")
            ds.attrs["enum_path"] = "/chroms/name"
    raw0 = _raw_rest(path, group)
    sib0 = _raw_rest(path, sib, True) if case.get("sibling") else ""
    clr = cooler.Cooler(uri)
    _view(clr, table, list(names0))           # the live object has been used (joined reads, lookups) before the first renaming
    old_sels = _mksels(clr)                   # selector objects obtained BEFORE the renamings and used after them
    stages = []
    seen = list(names0)
    for ren in case["renames"]:
        cooler.rename_chroms(clr, {a: b for a, b in ren})
        live = _view(clr, table, seen, old_sels)
        reopened = _view(cooler.Cooler(uri), table, seen)
        seen += [b for _, b in ren]
        stages.append({"live": live, "reopened": reopened, "raw_rest": _raw_rest(path, group), "raw": project.raw_uri(uri),
                       "sibling": _raw_rest(path, sib, True) if case.get("sibling") else ""})
    return {"stages": stages, "raw_rest0": raw0, "sibling0": sib0}


@driver("rn.many", timeout=600)
def rn_many(case, ctx):
    """Renaming in a collection with THOUSANDS of chromosomes (one bin each): the enum header of bins/chrom must fit HDF5's
    object header, and cooler falls back to plain integer IDs when the new names make it too long."""
    import cooler
    n = case["n"]
    names0 = [f"c{k}" for k in range(n)]
    path = ctx.path()
    import pandas as pd
    bins = pd.DataFrame({"chrom": names0, "start": np.zeros(n, dtype=np.int64), "end": np.full(n, 10, dtype=np.int64)})
    px = case["px"]
    cooler.create_cooler(path, bins, gen.pixels_frame(px), ordered=True)
    clr = cooler.Cooler(path)
    m = {f"c{k}": f"c{k}" + case["suffix"] for k in range(0, n, case["every"])}
    cooler.rename_chroms(clr, m)
    out = {}
    for tag, c in (("live", clr), ("reopened", cooler.Cooler(path))):
        b = c.bins()[:]
        labels = [str(x) for x in b["chrom"]]
        names = [str(x) for x in c.chromnames]
        lo, hi = c.extent(names[n - 2])
        out[tag] = {"names": names, "labels_follow_names": labels == names, "nbins": int(len(b)),
                    "extent_by_new_name": [int(lo), int(hi)],
                    "pixels": project.pixel_rows(c.pixels()[:], ["bin1_id", "bin2_id", "count"])}
    return out


@driver("rn.big", timeout=600)
def rn_big(case, ctx):
    """Renaming in a collection with MORE THAN A MILLION bins (a count that is not a multiple of 10^6): the chromosome labels of
    the bin table are projected as runs (name, length) - every bin is looked at, no bin is listed."""
    import cooler
    import pandas as pd
    from cooler.util import rlencode
    lens = case["lens"]
    names0 = gen.CHROMNAMES[:len(lens)]
    path = ctx.path()
    bins = cooler.binnify(pd.Series(lens, index=names0), 1)
    cooler.create_cooler(path, bins, gen.pixels_frame(case["px"]), ordered=True)
    clr = cooler.Cooler(path)
    m = {names0[k]: nm for k, nm in case["renames"]}
    cooler.rename_chroms(clr, m)
    out = {}
    for tag, c in (("live", clr), ("reopened", cooler.Cooler(path))):
        lab = c.bins()["chrom"][:]
        codes = np.asarray(lab.cat.codes) if hasattr(lab, "cat") else pd.factorize(lab)[0]
        cats = [str(x) for x in (lab.cat.categories if hasattr(lab, "cat") else pd.unique(lab))]
        starts, lengths, values = rlencode(codes)
        names = [str(x) for x in c.chromnames]
        last = names[-1]
        lo, hi = c.extent(last)
        fb = c.bins().fetch(last)
        out[tag] = {"names": names, "runs": [[cats[int(v)], int(ln)] for v, ln in zip(values, lengths)],
                    "extent_last": [int(lo), int(hi)], "fetch_last_labels": sorted({str(x) for x in fb["chrom"]}),
                    "fetch_last_n": int(len(fb)), "pixels": project.pixel_rows(c.pixels()[:], ["bin1_id", "bin2_id", "count"])}
    return out
