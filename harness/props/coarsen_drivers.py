"""Drivers for coarsening (C08) and multi-resolution files (C09)."""
from __future__ import annotations

import os

import numpy as np

from .. import gen, project
from ..core import driver


def _mk(path, table, px, mode, cols=("count",), dtypes=None, at=None):
    """Create a cooler; with `at`, in that group of the file next to a decoy collection with other content at the root.
    Returns the URI."""
    import cooler
    cols = list(cols)
    if at:
        cooler.create_cooler(path, gen.bins_frame(table), gen.pixels_frame(gen.decoy_px(px), cols, {c: np.int64 for c in cols}),
                             columns=cols if cols != ["count"] else None, dtypes=dtypes, ordered=True,
                             symmetric_upper=mode == "symm")
        path = path + "::" + at
    cooler.create_cooler(path, gen.bins_frame(table), gen.pixels_frame(px, cols, {c: np.int64 for c in cols}),
                         columns=cols if cols != ["count"] else None, dtypes=dtypes, ordered=True,
                         symmetric_upper=mode == "symm", mode="a" if at else "w")
    return path


def _table_of(clr):
    names = gen.CHROMNAMES
    b = clr.bins()[["chrom", "start", "end"]][:]
    return [[names.index(str(ch)), int(s), int(e)] for ch, s, e in zip(b["chrom"], b["start"], b["end"])]


def _px_of(clr, cols=("count",)):
    return project.pixel_rows(clr.pixels()[:], ["bin1_id", "bin2_id", *cols])


@driver("co.coarsen", timeout=180)
def co_coarsen(case, ctx):
    import cooler
    from cooler._reduce import CoolerCoarsener
    d = ctx.subdir()
    cols = case["cols"]
    scale = case.get("scale", 1)
    in_dt = {c: case["in_dtype"] for c in cols} if case.get("in_dtype") else None     # narrow integer columns in the source
    if case.get("prior_table"):
        # the source path held ANOTHER cooler - other bin boundaries, other pixels - that was coarsened by this process
        # before it was replaced by the cooler of the case
        pt = case["prior_table"]
        psrc = _mk(os.path.join(d, "src.cool"), pt, [[i, j, 1] for i in range(len(pt)) for j in range(i, len(pt))], "symm",
                   at=case.get("src_at"))
        cooler.coarsen_cooler(psrc, os.path.join(d, "prior_out.cool"), case["k"], chunksize=case["chunk"])
    if scale == 1:
        src = _mk(os.path.join(d, "src.cool"), case["table"], case["px"], case["mode"], cols, dtypes=in_dt, at=case.get("src_at"))
    else:
        # float value columns holding exact multiples of 1/scale (dyadic, so every sum is exact)
        fr = gen.pixels_frame(case["px"], cols, {c: np.int64 for c in cols})
        for c in cols:
            fr[c] = fr[c].astype(np.float64) / scale
        src = os.path.join(d, "src.cool")
        cooler.create_cooler(src, gen.bins_frame(case["table"]), fr, columns=cols if cols != ["count"] else None,
                             dtypes={c: np.float64 for c in cols}, ordered=True, symmetric_upper=case["mode"] == "symm")
    out = os.path.join(d, "out.cool")
    uri = out if case.get("group", "/") == "/" else out + "::" + case["group"]
    agg = {c: f for c, f in zip(cols, case["aggs"]) if f != "sum"} or None
    if case.get("via") == "cli":
        from click.testing import CliRunner
        from cooler.cli import cli
        args = ["coarsen", src, "-k", str(case["k"]), "-c", str(case["chunk"]), "-p", str(case["nproc"]), "-o", uri]
        if cols != ["count"] or agg:
            for c, f in zip(cols, case["aggs"]):
                # dtype and aggregate in one field specifier, in either order
                dt = "int64" if scale == 1 else "float64"          # the type asked for holds the values of the case
                spec = {0: f"{c}:agg={f}", 1: f"{c}:dtype={dt},agg={f}", 2: f"{c}:agg={f},dtype={dt}",
                        3: c if f == "sum" else f"{c}:agg={f}"}[case.get("fieldstyle", 0)]       # 3: bare name where the default applies
                args += ["--field", spec]
        res = CliRunner().invoke(cli, args)
        if res.exit_code != 0:
            raise res.exception if isinstance(res.exception, Exception) else RuntimeError(res.output[-200:])
    else:
        cooler.coarsen_cooler(src, uri, case["k"], chunksize=case["chunk"], nproc=case["nproc"],
                              columns=cols if cols != ["count"] else None, agg=agg,
                              **({"dtypes": {c: np.dtype(case["out_dtype"]) for c in cols}} if case.get("out_dtype") else {}))
    c = cooler.Cooler(uri)
    if scale == 1:
        obs = {"table": _table_of(c), "px": _px_of(c, cols), "sum": project.to_int(c.info.get("sum", 0)),
               "raw": project.raw_uri(uri)}
    else:
        p = c.pixels()[:]
        for cc in cols:
            p[cc] = p[cc].astype(np.float64) * scale
        raw = project.raw_uri(uri) if False else None
        obs = {"table": _table_of(c), "px": project.pixel_rows(p, ["bin1_id", "bin2_id", *cols]),
               "sum": project.to_int(float(c.info.get("sum", 0)) * scale)}
        import h5py
        from cooler.util import parse_cooler_uri
        fp, gp = parse_cooler_uri(uri)
        with h5py.File(fp, "r+") as f:          # scale the stored column in place so that the raw projection is integral
            g = f[gp]
            vals = g["pixels/count"][:]
            del g["pixels/count"]
            g["pixels"].create_dataset("count", data=np.round(vals * scale).astype(np.int64))
            if "sum" in g.attrs:
                g.attrs["sum"] = int(round(float(g.attrs["sum"]) * scale))
        obs["raw"] = project.raw_uri(uri)
    try:
        cc = CoolerCoarsener(src, case["k"], case["chunk"], columns=cols, agg=agg, batchsize=1)
        obs["edges"] = project.ints(cc.edges)
        obs["hasint"] = True
    except Exception:
        obs["edges"], obs["hasint"] = [], False
    return obs


@driver("co.algebra")
def co_algebra(case, ctx):
    import cooler
    d = ctx.subdir()
    t, mode = case["table"], case["mode"]
    a = _mk(os.path.join(d, "a.cool"), t, case["px"], mode)
    b = _mk(os.path.join(d, "b.cool"), t, case["px2"], mode)
    k1, k2, ch = case["k1"], case["k2"], case["chunk"]
    p = lambda n: os.path.join(d, n)
    cooler.coarsen_cooler(a, p("a1.cool"), k1, chunksize=ch)
    cooler.coarsen_cooler(p("a1.cool"), p("a12.cool"), k2, chunksize=ch)
    cooler.merge_coolers(p("m.cool"), [a, b], mergebuf=case["buf"])
    cooler.coarsen_cooler(p("m.cool"), p("mc.cool"), k1, chunksize=ch)
    cooler.coarsen_cooler(b, p("b1.cool"), k1, chunksize=ch)
    cooler.merge_coolers(p("cm.cool"), [p("a1.cool"), p("b1.cool")], mergebuf=case["buf"])
    return {"chain": _px_of(cooler.Cooler(p("a12.cool"))), "chain_table": _table_of(cooler.Cooler(p("a12.cool"))),
            "coarsen_of_merge": _px_of(cooler.Cooler(p("mc.cool"))), "merge_of_coarsened": _px_of(cooler.Cooler(p("cm.cool")))}


@driver("zm.multiplier")
def zm_multiplier(case, ctx):
    from cooler._reduce import get_multiplier_sequence
    try:
        resn, pred, mult = get_multiplier_sequence(list(case["resolutions"]), list(case["bases"]))
    except Exception as ex:
        return {"err": type(ex).__name__}
    return {"err": "", "resn": project.ints(resn), "pred": project.ints(pred), "mult": project.ints(mult)}


@driver("zm.zoomify")
def zm_zoomify(case, ctx):
    import cooler
    d = ctx.subdir()
    t, mode, b0 = case["table"], case["mode"], case["binsize"]
    base = _mk(os.path.join(d, "base.cool"), t, case["px"], mode, at=case.get("src_at"))
    bases = []
    for r in case["base_res"]:
        if r == b0:
            bases.append(base)
        else:
            pth = os.path.join(d, f"base{r}.cool")
            cooler.coarsen_cooler(base, pth, r // b0, chunksize=10 ** 6,
                                  **({"agg": {"count": case["agg"]}} if case.get("agg", "sum") != "sum" else {}))
            bases.append(pth)
    if case.get("tagged"):
        # every base cooler carries something of its own that only a COPY preserves: a constant extra bin column and a metadata
        # entry naming its resolution
        import h5py
        from cooler.util import parse_cooler_uri
        for r, bu in zip(case["base_res"], bases):
            fp_, grp_ = parse_cooler_uri(bu)
            with h5py.File(fp_, "r+") as f:
                g = f[grp_]
                g["bins"].create_dataset("tag", data=np.full(len(g["bins/start"]), r, dtype=np.int64))
                g.attrs["metadata"] = '{"base": %d}' % r
    out = os.path.join(d, "out.mcool")
    if case.get("prior"):
        # the output path already holds a multires file written by an EARLIER run (other data, other ladder)
        pr = case["prior"]
        old = _mk(os.path.join(d, "old.cool"), t, pr["px"], mode)
        cooler.zoomify_cooler(old, out, list(pr["resolutions"]), chunksize=10 ** 6)
    try:
        if case.get("via") == "cli":
            from click.testing import CliRunner
            from cooler.cli import cli
            args = ["zoomify", bases[0], "-r", ",".join(str(r) for r in case["resolutions"]), "-c", str(case["chunk"]),
                    "-p", str(case["nproc"]), "-o", out]
            for bu in bases[1:]:
                args += ["--base-uri", bu]
            if case.get("agg", "sum") != "sum":
                args += ["--field", "count:agg=" + case["agg"]]          # an aggregate without a dtype
            res = CliRunner().invoke(cli, args)
            if res.exit_code != 0:
                raise res.exception if isinstance(res.exception, Exception) else RuntimeError(res.output[-200:])
        else:
            cooler.zoomify_cooler(bases if len(bases) > 1 else bases[0], out, list(case["resolutions"]),
                                  chunksize=case["chunk"], nproc=case["nproc"],
                                  **({"agg": {"count": case["agg"]}} if case.get("agg", "sum") != "sum" else {}))
    except Exception as ex:
        return {"err": type(ex).__name__, "msg": str(ex)[:100]}
    listing = cooler.fileops.list_coolers(out)
    levels = []
    for pth in listing:
        c = cooler.Cooler(out + "::" + pth)
        try:
            r = int(pth.rsplit("/", 1)[-1])
        except ValueError:
            r = -1
        b = c.bins()[:]
        md = c.info.get("metadata", {})
        levels.append({"res": r, "table": _table_of(c), "px": _px_of(c), "raw": project.raw_uri(out + "::" + pth),
                       "tag": sorted({project.to_int(v) for v in b["tag"]}) if "tag" in b.columns else [],
                       "meta_base": project.to_int(md.get("base", -1)) if isinstance(md, dict) else -1})
    return {"err": "", "listing": [[x for x in s.split("/") if x] for s in listing], "levels": levels,
            "multires": bool(cooler.fileops.is_multires_file(out))}


@driver("zm.multibase")
def zm_multibase(case, ctx):
    """Several base coolers that are NOT coarsenings of one another (bin sizes that do not divide each other, own data, own
    value dtype): every level is derivable from exactly one of them.  Values are multiples of 1/4 (case px are in quarters)."""
    import cooler
    d = ctx.subdir()
    uris = []
    for k, b in enumerate(case["bases"]):
        pth = os.path.join(d, f"b{k}.cool")
        dt = np.dtype(b["dtype"])
        px = gen.pixels_frame(b["px"], ["count"], {"count": np.float64})
        px["count"] = (px["count"] / 4).astype(dt)
        cooler.create_cooler(pth, gen.bins_frame(b["table"]), px, dtypes={"count": dt}, ordered=True,
                             symmetric_upper=case["mode"] == "symm")
        uris.append(pth)
    out = os.path.join(d, "out.mcool")
    how = case.get("dtypes_arg", "none")
    if how == "cli":
        # `cooler zoomify --field count` (no dtype given): the command passes an empty dtype mapping
        from click.testing import CliRunner
        from cooler.cli import cli
        args = ["zoomify", uris[0], "-r", ",".join(str(r) for r in case["resolutions"]), "-c", str(case["chunk"]), "-o", out,
                "--field", "count"]
        for u in uris[1:]:
            args += ["--base-uri", u]
        res = CliRunner().invoke(cli, args)
        if res.exit_code != 0:
            raise res.exception if isinstance(res.exception, Exception) else RuntimeError(res.output[-200:])
    else:
        cooler.zoomify_cooler(uris, out, list(case["resolutions"]), chunksize=case["chunk"],
                              **({"dtypes": {}} if how == "empty" else {}))
    levels = []
    for pth in cooler.fileops.list_coolers(out):
        c = cooler.Cooler(out + "::" + pth)
        levels.append({"res": int(pth.rsplit("/", 1)[-1]), "table": _table_of(c),
                       "px": project.pixel_rows(c.pixels()[:], ["bin1_id", "bin2_id", "count"], 4)})
    return {"levels": levels}


@driver("zm.resspec")
def zm_resspec(case, ctx):
    """`cooler zoomify -r <spec>`: which levels get written."""
    import cooler
    from click.testing import CliRunner
    from cooler.cli import cli
    d = ctx.subdir()
    b0 = case["binsize"]
    table = gen.binnify(case["lens"], b0)
    n = len(table)
    base = _mk(os.path.join(d, "base.cool"), table, [[i, i, 1] for i in range(n)], "symm")
    out = os.path.join(d, "out.mcool")
    res = CliRunner().invoke(cli, ["zoomify", base, "-r", case["spec"], "-o", out])
    if res.exit_code != 0:
        return {"err": f"{type(res.exception).__name__}: {str(res.exception)[:80]}", "levels": []}
    lv = sorted(int(p.rsplit("/", 1)[-1]) for p in cooler.fileops.list_coolers(out))
    return {"err": "", "levels": lv}


@driver("co.lock", timeout=120)
def co_lock(case, ctx):
    """Coarsening with worker processes INTO THE FILE THAT IS BEING READ: the lock acquisitions of the chunk iterator and
    of the writer, and the begin / end of every worker's read, are logged (one O_APPEND file, so the kernel orders the
    lines) from harness-side wrappers; the event sequence is validated against CoarsenLock.tla."""
    import sys

    import cooler
    import cooler._reduce as R
    d = ctx.subdir()
    fp = os.path.join(d, "same.cool")
    _mk(fp + "::/base", case["table"], case["px"], case["mode"])
    logf = os.path.join(d, "lock.log")
    fd = os.open(logf, os.O_WRONLY | os.O_CREAT | os.O_APPEND)

    def log(ev, s=-1):
        os.write(fd, f"{ev} {s}\n".encode())

    class LockProxy:
        def __init__(self, real):
            self.real = real

        def _who(self):
            name = sys._getframe(2).f_code.co_name
            return "iter" if name == "__iter__" else "writer" if name == "write_pixels" else name

        def acquire(self, *a, **k):
            r = self.real.acquire(*a, **k)
            log("A_" + self._who())                    # after the acquisition
            return r

        def release(self):
            log("R_" + self._who())                    # before the release
            return self.real.release()

    real_lock, real_agg = R.lock, R.CoolerCoarsener.aggregate

    def wrapped(self, span):
        log("RB", int(span[0]))
        try:
            return real_agg(self, span)
        finally:
            log("RE", int(span[0]))
    R.lock = LockProxy(real_lock)
    R.CoolerCoarsener.aggregate = wrapped
    try:
        cooler.coarsen_cooler(fp + "::/base", fp + "::/coarse", case["k"], chunksize=case["chunk"], nproc=case["nproc"])
    finally:
        R.lock, R.CoolerCoarsener.aggregate = real_lock, real_agg
        os.close(fd)
    events = []
    with open(logf) as f:
        for ln in f:
            e, s = ln.split()
            events.append({"e": e, "s": int(s)})
    c = cooler.Cooler(fp + "::/coarse")
    return {"events": events, "table": _table_of(c), "px": _px_of(c), "base_px": _px_of(cooler.Cooler(fp + "::/base")),
            "raw": project.raw_uri(fp + "::/coarse")}
