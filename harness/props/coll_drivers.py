"""Drivers that create collections with the real code and project them (C01, C02)."""
from __future__ import annotations

import json
import os

import numpy as np

from .. import gen, project
from ..core import driver

H5OPTS = [None, {"compression": "gzip", "compression_opts": 1}, {"compression": "lzf"},
          {"compression": "gzip", "compression_opts": 9, "shuffle": False}, {"chunks": True, "compression": "gzip", "fletcher32": True},
          {"compression": None, "shuffle": False}]
DTYPES = [None, {"count": "int64"}, {"count": "float64"}, {"count": "int32", "x": "int64"}, {"x": "float32", "y": "int16"},
          # the STORED dtype of the ID columns, as narrow as the table allows
          {"bin1_id": "uint8", "bin2_id": "uint8"}, {"bin1_id": "int8", "bin2_id": "int8"}, {"bin1_id": "uint16", "bin2_id": "int16"}]


def split(seq, sizes):
    out, k = [], 0
    for s in sizes:
        out.append(seq[k:k + s])
        k += s
    assert k == len(seq)
    return out


def pixel_input(case):
    """Builds the `pixels` argument of create_cooler in the requested input form."""
    import pandas as pd
    cols = case["cols"]
    px = case["px"]
    form = case["form"]
    n = len(case["table"])

    scale = case.get("scale", 1)

    idt = np.dtype(case.get("id_dtype", "int64"))     # dtype of the bin-ID columns handed in (the IDs fit)
    labels = case.get("labels", "default")            # row labels of the frames: 0..k-1, a permutation of them, or shifted
    import random as _random

    def frame(rows):
        d = {"bin1_id": np.array([r[0] for r in rows], dtype=idt),
             "bin2_id": np.array([r[1] for r in rows], dtype=idt)}
        for k, name in enumerate(cols):
            d[name] = np.array([r[2 + k] for r in rows], dtype=np.int64)
            if scale != 1:
                d[name] = d[name].astype(np.float64) / scale          # exact multiples of 1/scale
        f = pd.DataFrame(d)
        if labels == "perm":
            lab = list(range(len(f)))
            _random.Random(len(f) * 31 + case.get("shuffle_seed", 0)).shuffle(lab)
            f.index = lab
        elif labels == "offset":
            f.index = f.index + 1000
        return f

    def unsorted(rows):
        rows = list(rows)
        _random.Random(len(rows) * 17 + case.get("shuffle_seed", 0)).shuffle(rows)
        return rows

    if form == "frame":
        return frame(px), {}
    if form == "frame_shuffled":
        rows = list(px)
        import random
        random.Random(case.get("shuffle_seed", 0)).shuffle(rows)
        return frame(rows), {}
    if form == "dict":
        f = frame(px)
        return {k: f[k].values for k in f.columns}, {}
    if form == "iter":
        return iter([frame(c) for c in split(px, case["chunks"])]), {"ordered": True}
    if form == "iter_dict":
        return iter([{k: v.values for k, v in frame(c).items()} for c in split(px, case["chunks"])]), {"ordered": True}
    if form == "list":
        return [frame(c) for c in split(px, case["chunks"])], {"ordered": True}
    if form in ("iter_unsorted", "iter_dict_unsorted"):
        # chunks in order, the records WITHIN each chunk in any order: create() is asked to sort them (ensure_sorted), with
        # the other per-chunk checks switched on or off
        chk = case.get("checks", [True, True, True])
        kw = {"ordered": True, "ensure_sorted": True, "boundscheck": chk[0], "triucheck": chk[1], "dupcheck": chk[2]}
        fr = [frame(unsorted(c)) for c in split(px, case["chunks"])]
        if form == "iter_dict_unsorted":
            fr = [{k: v.values for k, v in f.items()} for f in fr]
        return iter(fr), kw
    if form == "dask":
        # a dask data frame whose partitions are the chunks of the case (create() reads the partitions in order)
        import dask.dataframe as dd
        parts = [c for c in split(px, case["chunks"]) if c] or [[]]
        f = frame(px)
        if len(px) == 0 or len(parts) == 1:
            return dd.from_pandas(f.reset_index(drop=True), npartitions=1), {"ordered": True}
        f = f.reset_index(drop=True)
        cuts, acc = [0], 0
        for c in parts:
            acc += len(c)
            cuts.append(acc)
        cuts[-1] = len(f) - 1                              # dask divisions: the last one is the last label, inclusive
        return dd.from_pandas(f, npartitions=1).repartition(divisions=sorted(set(cuts))), {"ordered": True}
    if form == "array":
        from cooler.create import ArrayLoader
        a = np.zeros((n, n), dtype=np.int64 if scale == 1 else np.float64)
        for i, j, v in px:
            a[i, j] = v / scale if scale != 1 else v
            a[j, i] = a[i, j]
        return ArrayLoader(gen.bins_frame(case["table"]), a, case["chunksize"]), {"ordered": True}
    raise ValueError(form)


def open_cooler(how, uri, fn):
    import cooler
    import h5py
    from cooler.util import parse_cooler_uri
    path, group = parse_cooler_uri(uri)
    if how == "handle":
        with h5py.File(path, "r") as f:
            return fn(cooler.Cooler(f[group]))
    if how == "path" and group == "/":
        return fn(cooler.Cooler(path))
    return fn(cooler.Cooler(uri))


@driver("cr.roundtrip")
def cr_roundtrip(case, ctx):
    import cooler
    pixels, kw = pixel_input(case)
    path = ctx.path()
    uri = path if case.get("group", "/") == "/" else path + "::" + case["group"]
    cols = case["cols"]
    meta = json.loads(case["meta"]) if case["meta_given"] else None
    extra = {}
    if cols != ["count"]:
        extra["columns"] = cols
    if case.get("scale", 1) != 1:
        extra["dtypes"] = {k: "float64" for k in cols}
    elif DTYPES[case["dt"]] is not None:
        extra["dtypes"] = {k: v for k, v in DTYPES[case["dt"]].items() if k in cols or k in ("bin1_id", "bin2_id")}
    if H5OPTS[case["h5"]] is not None:
        extra["h5opts"] = H5OPTS[case["h5"]]
    if case["assembly_given"]:
        extra["assembly"] = case["assembly"]
    cooler.create_cooler(uri, gen.bins_frame(case["table"]), pixels, metadata=meta,
                         symmetric_upper=case["mode"] == "symm", **kw, **extra)
    sc = case.get("scale", 1)
    api = open_cooler(case["open"], uri, lambda c: project.api_view(c, cols, sc))
    # the same attributes as `cooler info` prints them (metadata document, one field, the info dump)
    from click.testing import CliRunner
    from cooler.cli import cli

    def info(*args):
        res = CliRunner().invoke(cli, ["info", uri, *args])
        if res.exit_code != 0:
            raise res.exception if isinstance(res.exception, Exception) else RuntimeError(res.output[-200:])
        return res.output
    dump = json.loads(info())
    api.update({"cli_meta": project.canon_json(json.loads(info("--metadata"))), "cli_nnz": int(info("-f", "nnz").strip()),
                "cli_assembly": str(dump.get("genome-assembly", "MISSING")), "cli_mode": str(dump.get("storage-mode", "MISSING")),
                "cli_nbins": int(dump.get("nbins", -1))})
    if sc != 1:
        # scale the stored value columns in place so that the raw projection is integral (the exactness is checked)
        import h5py
        from cooler.util import parse_cooler_uri
        fp, gp = parse_cooler_uri(uri)
        with h5py.File(fp, "r+") as f:
            g = f[gp]
            for name in cols:
                vals = g["pixels"][name][:].astype(np.float64) * sc
                if not np.array_equal(vals, np.round(vals)):
                    raise ValueError(f"stored column {name} is not a multiple of 1/{sc}")
                del g["pixels"][name]
                g["pixels"].create_dataset(name, data=vals.astype(np.int64))
            if "sum" in g.attrs:
                g.attrs["sum"] = int(round(float(g.attrs["sum"]) * sc))
    return {"api": api, "raw": project.raw_uri(uri)}


def _frame(px, cols=("count",)):
    return gen.pixels_frame(px, cols)


def _collect(uris):
    return [project.raw_uri(u) for u in uris]


@driver("csr.colls")
def csr_colls(case, ctx):
    """A history of producing operations; every collection written is projected raw."""
    import cooler
    import h5py
    import pandas as pd
    table, mode = case["table"], case["mode"]
    symm = mode == "symm"
    bins = gen.bins_frame(table)
    d = ctx.subdir()
    kind = case["producer"]
    uris = []
    if kind == "history":
        f1, f2, f3, f4 = (os.path.join(d, n) for n in ("one.cool", "two.cool", "three.mcool", "four.scool"))
        cooler.create_cooler(f1, bins, _frame(case["px1"]), ordered=True, symmetric_upper=symm)
        cooler.create_cooler(f1 + "::/b", bins, iter([_frame(c) for c in split(case["px2"], case["chunks2"])]),
                             ordered=True, symmetric_upper=symm, mode="a")
        uris += [f1 + "::/", f1 + "::/b"]
        cooler.merge_coolers(f2 + "::/m", [f1 + "::/", f1 + "::/b"], mergebuf=case["mergebuf"])
        uris.append(f2 + "::/m")
        cooler.coarsen_cooler(f2 + "::/m", f2 + "::/c", case["k"], chunksize=case["chunk"], nproc=1)
        uris.append(f2 + "::/c")
        # unordered ingestion of the two record sets, chunked and shuffled
        import random
        rng = random.Random(case["seed"])
        rows = case["px1"] + case["px2"]
        rng.shuffle(rows)
        chunks = [sorted(c) for c in split(rows, case["uchunks"])]
        chunks = [_frame(c).groupby(["bin1_id", "bin2_id"], as_index=False).sum() if len(c) else _frame(c) for c in chunks]
        cooler.create_cooler(f2 + "::/u", bins, iter(chunks), ordered=False, symmetric_upper=symm, mode="a",
                             mergebuf=case["mergebuf"], max_merge=case["max_merge"], temp_dir=d)
        uris.append(f2 + "::/u")
        if case.get("zoom"):
            # the base is the root collection, or the collection in the group /b NEXT TO another one at the root
            cooler.zoomify_cooler(f1 + ("::/b" if case.get("zoom_nested") else "::/"), f3, case["zoom"], chunksize=case["chunk"], nproc=1)
            uris += [f3 + "::" + p for p in cooler.fileops.list_coolers(f3)]
        cells = {"cellx": _frame(case["px1"]), "celly": _frame(case["px2"]), "empty": _frame([])}
        cooler.create_scool(f4, bins, cells, ordered=True, symmetric_upper=symm)
        uris += [f4 + "::" + p for p in cooler.fileops.list_scool_cells(f4)]
    elif kind == "load":
        from click.testing import CliRunner
        from cooler.cli import cli
        binfile = os.path.join(d, "bins.bed")
        bins.to_csv(binfile, sep="\t", header=False, index=False)
        out = os.path.join(d, "loaded.cool")
        txt = os.path.join(d, "px.txt")
        rows = case["px1"]
        if case["fmt"] == "coo":
            with open(txt, "w") as f:
                for i, j, v in rows:
                    f.write(f"{i}\t{j}\t{v}\n")
        else:
            with open(txt, "w") as f:
                for i, j, v in rows:
                    a, b = table[i], table[j]
                    f.write(f"{gen.CHROMNAMES[a[0]]}\t{a[1]}\t{a[2]}\t{gen.CHROMNAMES[b[0]]}\t{b[1]}\t{b[2]}\t{v}\n")
        args = ["load", "-f", case["fmt"], binfile, txt, out, "--chunksize", str(case["chunk"])]
        if not symm:
            args += ["--no-symmetric-upper"]
        res = CliRunner().invoke(cli, args)
        if res.exit_code != 0:
            raise RuntimeError(f"cooler load exit {res.exit_code}: {res.output[-300:]} {res.exception!r}")
        uris.append(out)
    elif kind == "empties":
        # producers that never receive a pixel chunk, with a SECOND value column next to count
        cols = ["count", "x"]
        empty = gen.pixels_frame([], cols)
        e1, e2, e3, e4, e5, e6 = (os.path.join(d, n) for n in ("e1.cool", "e2.cool", "e3.cool", "e4.cool", "e5.mcool", "e6.cool"))
        cooler.create_cooler(e1, bins, iter([]), columns=cols, ordered=True, symmetric_upper=symm)           # no chunk at all
        cooler.create_cooler(e2, bins, iter([empty]), columns=cols, ordered=True, symmetric_upper=symm)      # one empty chunk
        cooler.create_cooler(e6, bins, empty, columns=cols, symmetric_upper=symm)                            # an empty frame
        cooler.merge_coolers(e3, [e1, e2], mergebuf=case["mergebuf"], columns=cols)
        uris += [e1, e2, e6, e3]
        if case["fixed"]:
            cooler.coarsen_cooler(e3, e4, case["k"], chunksize=case["chunk"], nproc=1, columns=cols)
            cooler.zoomify_cooler(e2, e5, [case["binsize"] * 2, case["binsize"] * 4], chunksize=case["chunk"], columns=cols)
            uris += [e4] + [e5 + "::" + p for p in cooler.fileops.list_coolers(e5)]
    else:
        raise ValueError(kind)
    return {"colls": _collect(uris)}


@driver("idx.rle")
def idx_rle(case, ctx):
    from cooler.util import rlencode
    a = np.array(case["a"], dtype=np.int64)
    s, ln, v = rlencode(a, case["chunk"]) if case["chunk"] > 0 else rlencode(a)
    return {"starts": project.ints(s), "lengths": project.ints(ln), "values": project.ints(v)}


@driver("idx.index")
def idx_index(case, ctx):
    from cooler.create._create import index_bins, index_pixels
    keys = np.array(case["keys"], dtype=np.int64)
    if case["which"] == "pixels":
        off = index_pixels({"bin1_id": keys}, case["n"], len(keys))
    else:
        off = index_bins({"chrom": keys}, case["n"], len(keys))
    return {"offset": project.ints(off)}


@driver("csr.big")
def csr_big(case, ctx):
    """> 10^6 pixels so that the index builder crosses its 1 000 000-row block boundary end to end."""
    import cooler
    import h5py
    n = case["n"]
    bins = gen.bins_frame([[0, 10 * k, 10 * (k + 1)] for k in range(n)])
    i, j = np.triu_indices(n)
    if case.get("holes"):
        keep = (i % 7 != 3)          # empty rows
        i, j = i[keep], j[keep]
    step = case["step"]

    def chunks():
        import pandas as pd
        for lo in range(0, len(i), step):
            yield pd.DataFrame({"bin1_id": i[lo:lo + step], "bin2_id": j[lo:lo + step],
                                "count": np.ones(len(i[lo:lo + step]), dtype=np.int32)})
    path = ctx.path()
    cooler.create_cooler(path, bins, chunks(), ordered=True, h5opts={"compression": "lzf"})
    uri = path
    if case.get("then") == "merge":
        out = ctx.path()
        cooler.merge_coolers(out, [path, path], mergebuf=case["mergebuf"], h5opts={"compression": "lzf"})
        uri = out
    with h5py.File(uri, "r") as f:
        b1 = f["pixels/bin1_id"][:]
        b2 = f["pixels/bin2_id"][:]
        off = f["indexes/bin1_offset"][:]
        nnz = int(f.attrs["nnz"])
        lens = [int(f["pixels"][c].shape[0]) for c in f["pixels"]]
        nb = int(f.attrs["nbins"])
    starts = np.r_[0, np.flatnonzero(np.diff(b1)) + 1] if len(b1) else np.array([], dtype=int)
    same_row = np.diff(b1) == 0
    unsorted = int(np.count_nonzero(same_row & (np.diff(b2) <= 0)))
    return {"runs": [[int(s), int(b1[s])] for s in starts], "bin1_offset": project.ints(off), "nnz": nnz,
            "lens": lens, "nbins": nb, "bin2_unsorted_rows": unsorted}
