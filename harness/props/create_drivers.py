"""Drivers for the stepwise write and its failure modes (C13; create clauses of C15)."""
from __future__ import annotations

import os

import numpy as np

from .. import gen, project
from ..core import driver

TABS = ["chroms", "bins", "pixels", "indexes"]


def pstr(path):
    return "/" + "/".join(path)


def project_file(fp, paths):
    """Raw projection (h5py only) of the groups named by `paths` (lists of names)."""
    import h5py
    if not os.path.exists(fp):
        return {"exists": False, "nodes": [{"path": p, "present": False, "fmt": False, "tabs": [], "px": []} for p in paths]}
    nodes = []
    with h5py.File(fp, "r") as f:
        for p in paths:
            s = pstr(p)
            if s != "/" and s not in f:
                nodes.append({"path": p, "present": False, "fmt": False, "tabs": [], "px": []})
                continue
            g = f[s]
            fmt = project.attr(g.attrs.get("format", "")) == "HDF5::Cooler"
            tabs = [t for t in TABS if t in g]
            px = []
            if fmt and len(tabs) == 4:
                pg = g["pixels"]
                px = [[int(a), int(b), int(c)] for a, b, c in zip(pg["bin1_id"][:], pg["bin2_id"][:], pg["count"][:])]
            nodes.append({"path": p, "present": True, "fmt": bool(fmt), "tabs": tabs, "px": px})
    return {"exists": True, "nodes": nodes}


def observe(fp, paths, dest):
    import cooler
    d = {"file": project_file(fp, paths)}
    uri = fp + "::" + pstr(dest)
    d["is_cooler_raised"] = ""
    try:
        d["is_cooler"] = bool(cooler.fileops.is_cooler(uri))
    except Exception as ex:          # recognition must answer, not raise
        d["is_cooler"] = False
        d["is_cooler_raised"] = type(ex).__name__
    try:
        lst = cooler.fileops.list_coolers(fp) if os.path.exists(fp) else []
        d["listing"] = [[x for x in s.split("/") if x] for s in lst]
    except Exception as ex:
        d["listing"] = [["raised", type(ex).__name__]]
    return d


class Feeder:
    """The input iterable: projects the file every time the next chunk is requested."""

    def __init__(self, call, fp, paths, points):
        self.call, self.fp, self.paths, self.points = call, fp, paths, points
        self.k = 0

    def __iter__(self):
        return self

    def __next__(self):
        k = self.k
        self.k += 1
        pt = observe(self.fp, self.paths, self.call["dest"])
        pt.update({"at": "pull", "k": k})
        self.points.append(pt)
        fault = self.call["fault"]
        if fault["kind"] == "iter_raise" and k == fault["at"]:
            raise RuntimeError("verif: input iterator failed")
        if k >= len(self.call["chunks"]):
            raise StopIteration
        rows = self.call["chunks"][k]
        fr = gen.pixels_frame(rows)
        idt = self.call.get("id_dtype", "int64")
        if idt != "int64" and all(r[0] >= 0 and r[1] >= 0 for r in rows):
            # the ID columns as a user may well have them: unsigned or narrow integers (whenever the IDs of the chunk fit)
            fr["bin1_id"] = fr["bin1_id"].astype(idt)
            fr["bin2_id"] = fr["bin2_id"].astype(idt)
        return fr if k % 2 == 0 else {c: fr[c].values for c in fr.columns}


class Boom(Exception):
    pass


FIRED = []     # names of injected failures that actually fired in the current driver call


def patched(name, when):
    """Context manager: replace cooler.create._create.<name> by a function raising Boom (before or after the real one)."""
    import contextlib
    import cooler.create._create as cc

    @contextlib.contextmanager
    def cm():
        real = getattr(cc, name)

        def fake(*a, **k):
            FIRED.append(name)
            if when == "before":
                raise Boom(f"verif: injected failure in {name}")
            real(*a, **k)
            raise Boom(f"verif: injected failure after {name}")
        setattr(cc, name, fake)
        try:
            yield
        finally:
            setattr(cc, name, real)
    return cm()


class _H5Proxy:
    """Stands in for the module `h5py` inside cooler.create._create: every File(...) is counted first."""

    def __init__(self, real, on_open):
        self._real, self._on_open = real, on_open

    def __getattr__(self, name):
        return getattr(self._real, name)

    def File(self, *a, **k):
        self._on_open()
        return self._real.File(*a, **k)


def die_at_open(j, save):
    """PROCESS DEATH: the process ends (os._exit: no exception handler, no `finally`, no atexit, no HDF5 shutdown) right before
    the j-th time the writer opens a file.  create() opens and closes the file once per step, so every one of these points has
    the file closed - the state on disk is what the previous step left.  Only used inside a forked child (in_child)."""
    import h5py
    import cooler.create._create as cc
    count = {"n": 0}

    def on_open():
        count["n"] += 1
        if count["n"] == j:
            save()
            os._exit(9)
    cc.h5py = _H5Proxy(h5py, on_open)
    return count


def in_child(body, side):
    """Run body(save) in a forked child.  body returns a JSON-able result; save(obj) stores a partial result in the side file
    (the child may die right afterwards).  Returns ("ok", result) or ("killed", last saved partial result)."""
    import json
    import traceback
    from ..tlc import MachineryError

    def save(obj):
        with open(side + ".tmp", "w") as f:
            json.dump(obj, f)
            f.flush()
            os.fsync(f.fileno())
        os.replace(side + ".tmp", side)
    pid = os.fork()
    if pid == 0:
        code = 0
        try:
            import signal
            import sys
            signal.alarm(0)
            # the process-shared lock of cooler.parallel lives in memory shared with the parent: a child that dies while
            # holding it would block every later child, which no real process death does - each child gets its own
            import cooler.parallel as cp
            import multiprocess as mp_
            old_lock, fresh = cp.lock, mp_.Lock()
            for m in list(sys.modules.values()):
                if m is not None and getattr(m, "lock", None) is old_lock:
                    m.lock = fresh
            save({"done": True, "res": body(save)})
        except BaseException:
            code = 3
            try:
                save({"failed": traceback.format_exc()})
            except BaseException:
                pass
        os._exit(code)          # never return into the worker's stack (nor run its atexit handlers)
    try:
        _, st = os.waitpid(pid, 0)
    except BaseException:          # the watchdog of the worker fired: do not leave the child behind
        import signal
        try:
            os.kill(pid, signal.SIGKILL)
            os.waitpid(pid, 0)
        except OSError:
            pass
        raise
    code = os.waitstatus_to_exitcode(st)
    with open(side) as f:
        got = json.load(f)
    if code == 9:
        return "killed", got
    if code == 0 and got.get("done"):
        return "ok", got["res"]
    raise MachineryError(f"child of a process-death case ended with status {code}: {got.get('failed', got)}")


CRASHES = {"crash_indexes": ("write_indexes", "before"), "crash_info": ("write_info", "before"),
           "crash_tables": ("write_bins", "before"), "crash_after_tables": ("prepare_pixels", "after")}


@driver("cr.steps")
def cr_steps(case, ctx):
    import contextlib
    import cooler
    d = ctx.subdir()
    fp = os.path.join(d, "f.cool")
    paths = case["paths"]
    out = []
    for call in case["calls"]:
        table = gen.simple_table(call["n"])
        points = []
        feeder = Feeder(call, fp, paths, points)
        uri = fp + "::" + pstr(call["dest"]) if (call["dest"] or call.get("explicit_root")) else fp
        if call.get("noslash") and call["dest"]:
            uri = fp + "::" + "/".join(call["dest"])
        if call.get("mark_mcool"):
            # the file is (by now) a multi-resolution file: its root carries the MCOOL format attribute
            import h5py
            with h5py.File(fp, "r+") as f:
                f.attrs["format"] = "HDF5::MCOOL"
                f.attrs["format-version"] = 2
        kind = call["fault"]["kind"]
        cm = patched(*CRASHES[kind]) if kind in CRASHES else contextlib.nullcontext()
        kw = {}
        if kind == "bad_metadata":
            kw["metadata"] = {"n_reads": np.int64(123456), "ok": [1, 2]}        # not JSON-serialisable
        opens = 0
        if kind == "kill":
            def body(save, call=call, uri=uri, table=table, feeder=feeder, points=points):
                count = die_at_open(call["fault"]["at"], lambda: save({"points": points}))
                try:
                    cooler.create_cooler(uri, gen.bins_frame(table), feeder, ordered=True,
                                         symmetric_upper=call["symm"], mode=call["mode"])
                    res = ["ok", ""]
                except Exception as ex:
                    res = ["error", type(ex).__name__]
                return {"points": points, "res": res, "opens": count["n"]}
            status, got = in_child(body, os.path.join(d, "side.json"))
            points = got["points"]
            if status == "killed":
                outcome, err, opens = "killed", "", call["fault"]["at"]
            else:
                (outcome, err), opens = got["res"], got["opens"]
        else:
            try:
                with cm:
                    cooler.create_cooler(uri, gen.bins_frame(table), feeder, ordered=True,
                                         symmetric_upper=call["symm"], mode=call["mode"], **kw)
                outcome, err = "ok", ""
            except Exception as ex:
                outcome, err = "error", type(ex).__name__
        pt = observe(fp, paths, call["dest"])
        pt.update({"at": "end", "outcome": outcome, "err": err, "k": -1})
        points.append(pt)
        out.append({"points": points, "opens": opens})
    return {"calls": out}


@driver("cr.producer")
def cr_producer(case, ctx):
    """merge / coarsen / unordered creation / zoomify-level producers writing into a multi-collection file,
    with a failure injected into the shared writer (validator raising at chunk k, or index/info writer)."""
    import contextlib
    import cooler
    import cooler.create._create as cc
    d = ctx.subdir()
    fp = os.path.join(d, "multi.cool")
    src = os.path.join(d, "src.cool")
    paths = case["paths"]
    table = case["table"]
    bins = gen.bins_frame(table)
    symm = case["mode"] == "symm"
    gen.make_cooler(src, table, case["px"], case["mode"])
    src2 = os.path.join(d, "src2.cool")
    gen.make_cooler(src2, table, case["px2"], case["mode"])
    for p in case["existing"]:                                 # neighbours already in the destination file
        cooler.create_cooler(fp + "::" + pstr(p), bins, gen.pixels_frame(case["px2"]), ordered=True,
                             symmetric_upper=symm, mode="a")
    before = project_file(fp, paths)
    del FIRED[:]
    dest = case["dest"]
    uri = fp + "::" + pstr(dest)
    fault = case["fault"]
    stack = contextlib.ExitStack()
    if fault["kind"] == "validator":
        real = cc.validate_pixels

        def fake(*a, **k):
            v = real(*a, **k)
            state = {"n": 0}

            def run(chunk):
                if state["n"] == fault["at"]:
                    FIRED.append("validator")
                    raise Boom("verif: injected failure in validator")
                state["n"] += 1
                return v(chunk)
            return run
        cc.validate_pixels = fake
        stack.callback(lambda: setattr(cc, "validate_pixels", real))
    elif fault["kind"] in CRASHES:
        stack.enter_context(patched(*CRASHES[fault["kind"]]))
    if fault["kind"] == "invalid_source":
        # the SOURCE collection itself holds an invalid pixel (it was stored with the checks switched off): a lower-triangle
        # pixel in a symmetric-upper collection, a bin beyond the table otherwise; the producers validate what they write
        n = len(table)
        # (coarsening may fold a lower-triangle pixel into a valid coarse pixel, so the coarsener always gets a bin beyond the
        #  table; one valid pixel makes room: the pixel table is sized for the possible pixels)
        bad = [1, 0, 1] if symm and case["producer"] == "merge" else [0, n, 1]
        if case["producer"] == "merge" and fault.get("what") == "neg":
            bad = [-1, 0, 1]                                   # a negative bin ID: it sorts before the first row
        rows = sorted([p for p in case["px"][1:] if p[:2] != bad[:2]] + [bad])
        cooler.create_cooler(src, bins, gen.pixels_frame(rows), ordered=True, symmetric_upper=symm,
                             boundscheck=False, triucheck=False, dupcheck=False)
        FIRED.append("invalid_source")
    def produce():
        prod = case["producer"]
        if prod == "merge":
            cooler.merge_coolers(uri, [src, src2], mergebuf=case["buf"], mode="a")
        elif prod == "coarsen":
            cooler.coarsen_cooler(src, uri, case["k"], chunksize=case["buf"], nproc=1)
        elif prod == "unordered":
            rows = case["px"]
            half = len(rows) // 2
            chunks = [gen.pixels_frame(rows[:half]), gen.pixels_frame(rows[half:]), gen.pixels_frame(case["px2"])]
            if fault["kind"] == "invalid":
                FIRED.append("invalid")
                bad = gen.pixels_frame([[len(table), 0, 1]] if not symm else [[1, 0, 1]])
                chunks.insert(fault["at"], bad)
            tmpd = os.path.join(d, "tmp")
            os.makedirs(tmpd, exist_ok=True)
            cooler.create_cooler(uri, bins, iter(chunks), ordered=False, symmetric_upper=symm, mode="a",
                                 mergebuf=case["buf"], temp_dir=tmpd)
        else:
            raise ValueError(prod)

    if fault["kind"] == "kill":
        # process death right before the writer opens a file for the (at+1)-th time (destination or temporary file)
        def body(save):
            die_at_open(fault["at"] + 1, lambda: save({}))
            try:
                produce()
                return "ok"
            except Exception:
                return "error"
        status, got = in_child(body, os.path.join(d, "side.json"))
        outcome = "killed" if status == "killed" else got
        if status == "killed":
            FIRED.append("kill")
    else:
        try:
            with stack:
                produce()
            outcome = "ok"
        except Exception as ex:
            outcome = "error"
    o = observe(fp, paths, dest)
    return {"before": before, "after": o["file"], "outcome": outcome, "is_cooler": o["is_cooler"],
            "is_cooler_raised": o["is_cooler_raised"], "listing": o["listing"], "fired": bool(FIRED)}
