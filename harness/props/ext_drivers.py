"""Drivers for genomic-range lookups (C04) and bin tables (C20)."""
from __future__ import annotations

import io
import os

import numpy as np

from .. import gen
from ..core import driver

NAMES = gen.CHROMNAMES


def _region(r):
    name = NAMES[r["c"]]
    s = r["s"][0] if r["s"] else None
    e = r["e"][0] if r["e"] else None
    if r["form"] == "tuple":
        return (name, s, e)
    if r["form"] == "name":
        return name
    if r["form"] == "ucsc":
        return f"{name}:{s}-{e}" if e is not None else f"{name}:{s}-"
    if r["form"] == "ucsc_commas":
        return f"{name}:{s:,}-{e:,}"
    raise ValueError(r["form"])


def _none0(x):
    return 0 if x is None else int(x)


@driver("ext.cooler")
def ext_cooler(case, ctx):
    import cooler
    import h5py
    uri = gen.place(ctx.path(), case["table"], case["px"], case["mode"], at=case.get("at"), prior=case.get("prior", False))
    fp, grp = gen.split_uri(uri)
    out = []
    with h5py.File(fp, "r") as f:
        c = cooler.Cooler(f[grp]) if case.get("open", "handle") == "handle" else cooler.Cooler(uri)
        binsize = _none0(c.binsize)
        for q in case["qs"]:
            r1, r2 = _region(q["r"]), _region(q["r2"])
            item = {"r": q["r"], "r2": q["r2"], "err": ""}
            try:
                lo, hi = c.extent(r1)
                item["extent"] = [int(lo), int(hi)]
                item["offset"] = int(c.offset(r1))
                lo2, hi2 = c.extent(r2)
                item["extent2"] = [int(lo2), int(hi2)]
                b = c.bins().fetch(r1)
                item["bins"] = [int(x) for x in b.index]
                item["binrows"] = [[NAMES.index(str(ch)), int(s), int(e)] for ch, s, e in zip(b["chrom"], b["start"], b["end"])]
                p = c.pixels().fetch(r1)
                item["pixels"] = [[int(a), int(bb), int(v)] for a, bb, v in zip(p["bin1_id"], p["bin2_id"], p["count"])]
                m = c.matrix(balance=False, sparse=True).fetch(r1, r2)
                item["mshape"] = [int(m.shape[0]), int(m.shape[1])]
                item["matrix"] = [[int(a), int(bb), int(v)] for a, bb, v in zip(m.row, m.col, m.data)]
                if q.get("single"):
                    # one-region fetch = square block on that region
                    m1 = c.matrix(balance=False, sparse=True).fetch(r1)
                    item["r2"], item["extent2"] = q["r"], item["extent"]
                    item["mshape"] = [int(m1.shape[0]), int(m1.shape[1])]
                    item["matrix"] = [[int(a), int(bb), int(v)] for a, bb, v in zip(m1.row, m1.col, m1.data)]
            except Exception as ex:
                item = {"r": q["r"], "r2": q["r2"], "err": f"{type(ex).__name__}: {str(ex)[:80]}"}
            out.append(item)
    return {"binsize": binsize, "q": out}


@driver("ext.refuse")
def ext_refuse(case, ctx):
    """Ranges beyond the chromosome / reversed / negative / on an unknown chromosome."""
    import cooler
    path = ctx.path()
    gen.make_cooler(path, case["table"], case["px"], case["mode"])
    c = cooler.Cooler(path)
    out = []
    for reg in case["regs"]:
        reg = tuple(reg) if isinstance(reg, list) else reg
        for what in ("extent", "bins", "matrix"):
            try:
                if what == "extent":
                    c.extent(reg)
                elif what == "bins":
                    c.bins().fetch(reg)
                else:
                    c.matrix(balance=False).fetch(reg)
                err = "none"
            except Exception as ex:
                err = type(ex).__name__
            out.append({"reg": str(reg), "what": what, "err": err})
    return {"q": out}


@driver("ext.binsize")
def ext_binsize(case, ctx):
    import cooler
    from cooler.util import get_binsize, get_chromsizes
    table = case["table"]
    nch = 1 + max(c for c, _, _ in table)
    # chromosome names whose lexicographic order is NOT the order of the table (c2, c10, c1, ...), or the usual a, b, c
    names = ["c2", "c10", "c1", "c3", "c0"] if case.get("names") == "unsorted" else NAMES
    bins = gen.bins_frame(table, names)
    cat = case.get("categorical")
    if cat in (True, "ordered"):
        import pandas as pd
        bins["chrom"] = pd.Categorical(bins["chrom"], categories=names[:nch], ordered=True)
    elif cat == "lexical":
        bins["chrom"] = bins["chrom"].astype("category")     # unordered, categories in lexicographic order (as read_csv gives)
    ik = case.get("index", "default")
    if ik == "offset":                                  # e.g. leading chromosomes filtered out of a larger table
        bins.index = bins.index + 7
    elif ik == "sorted":                                # e.g. sort_values(["chrom", "start"]) without resetting the index
        import random as _r
        perm = list(range(len(bins)))
        _r.Random(len(bins)).shuffle(perm)
        bins.index = perm
    bs = get_binsize(bins)
    cs = get_chromsizes(bins)
    path = ctx.path()
    if case.get("prior_fixed"):
        # the path already holds a cooler on a FIXED-width table (bin size 2); the case's collection replaces it in append mode
        cooler.create_cooler(path, gen.bins_frame(gen.binnify([6, 4], 2)), gen.pixels_frame([[0, 1, 3]]), ordered=True)
        cooler.create_cooler(path, bins, gen.pixels_frame([[0, 0, 1]]), ordered=True, mode="a")
    else:
        cooler.create_cooler(path, bins, gen.pixels_frame([[0, 0, 1]]), ordered=True)
    c = cooler.Cooler(path)
    info = c.info
    return {"binsize": _none0(bs), "chromsizes": [int(x) for x in cs.values],
            "chromnames_ok": [str(x) for x in cs.index] == names[:len(cs)] and len(cs) == nch
            and [str(x) for x in c.chromnames] == names[:nch],
            "cooler_binsize": _none0(c.binsize), "bintype": str(info["bin-type"]),
            "cooler_chromsizes": [int(x) for x in c.chromsizes.values]}


def _parse_bed(text, header=False):
    rows, ids = [], []
    lines = [ln for ln in text.split("\n") if ln]
    if header:
        lines = lines[1:]
    for ln in lines:
        f = ln.split("\t")
        rows.append([NAMES.index(f[0]), int(f[1]), int(f[2])])
        if len(f) > 3:
            ids.append(int(f[3]))
    return rows, ids


@driver("ext.binnify")
def ext_binnify(case, ctx):
    import pandas as pd
    from click.testing import CliRunner
    from cooler.cli import cli
    from cooler.cli._util import parse_bins
    from cooler.util import binnify
    lens, b = case["lens"], case["b"]
    cs = pd.Series(lens, index=NAMES[:len(lens)])
    t = binnify(cs, b)
    table = [[NAMES.index(str(ch)), int(s), int(e)] for ch, s, e in zip(t["chrom"], t["start"], t["end"])]
    d = ctx.subdir()
    csfile = os.path.join(d, "x.chrom.sizes")
    with open(csfile, "w") as f:
        for n, ln in zip(NAMES, lens):
            f.write(f"{n}\t{ln}\n")
    args = ["makebins", csfile, str(b), "--rel-ids", str(case["relbase"])]
    if case.get("header"):
        args.append("--header")
    outfile = None
    if case.get("out") in ("fresh", "existing"):
        # --out FILE: a new file, or a file that already holds the bins of an earlier run with another width
        outfile = os.path.join(d, "bins.out.bed")
        if case["out"] == "existing":
            r0 = CliRunner().invoke(cli, ["makebins", csfile, str(b + 3), "--out", outfile])
            if r0.exit_code != 0:
                raise RuntimeError(f"cooler makebins exit {r0.exit_code}: {r0.output[-200:]} {r0.exception!r}")
        args += ["--out", outfile]
    res = CliRunner().invoke(cli, args)
    if res.exit_code != 0:
        raise RuntimeError(f"cooler makebins exit {res.exit_code}: {res.output[-200:]} {res.exception!r}")
    text = res.output
    if outfile:
        with open(outfile) as f:
            text = f.read()
    cli_rows, relids = _parse_bed(text, header=case.get("header", False))
    pcs, pb = parse_bins(f"{csfile}:{b}")
    parsed = [[NAMES.index(str(ch)), int(s), int(e)] for ch, s, e in zip(pb["chrom"], pb["start"], pb["end"])]
    # the file `cooler makebins` wrote (chrom, start, end and a fourth column of relative IDs), given as the BINS argument
    parsed_bed, parsed_bed_lens = parsed, [int(x) for x in pcs.values]
    if not case.get("header"):
        bed = os.path.join(d, "made.bins.bed")
        with open(bed, "w") as f:
            f.write(text)
        try:
            pcs2, pb2 = parse_bins(bed)
            parsed_bed = [[NAMES.index(str(ch)) if str(ch) in NAMES else -1, int(s), int(e)] for ch, s, e in zip(pb2["chrom"], pb2["start"], pb2["end"])]
            parsed_bed_lens = [int(x) for x in pcs2.values]
        except Exception:
            parsed_bed, parsed_bed_lens = [], []
    return {"table": table, "cli": cli_rows, "relids": relids, "parsed": parsed,
            "parsed_lens": [int(x) for x in pcs.values], "parsed_bed": parsed_bed, "parsed_bed_lens": parsed_bed_lens}
