"""Drivers for record binning (C05)."""
from __future__ import annotations

import os
import random

import numpy as np

from .. import gen, project
from ..core import driver

NAMES = gen.CHROMNAMES
UNSORTED = ["c2", "c10", "c1", "c3", "c0"]      # names whose lexical order is not the order of the table
UNKNOWN = "zz"
_VEC = {"names": NAMES}                         # per case: the name vector in use


NUMERIC = ["2", "10", "1", "3", "7"]             # purely numeric names (Ensembl style), not in numeric order


def use_names(case):
    _VEC["names"] = UNSORTED if case.get("names") == "unsorted" else NUMERIC if case.get("names") == "numeric" else NAMES


def cname(c):
    return UNKNOWN if c < 0 else _VEC["names"][c]


def _bins_arg(d, table):
    """BINS argument of the CLI: a bins file (any table)."""
    p = os.path.join(d, "bins.bed")
    gen.bins_frame(table, _VEC["names"]).to_csv(p, sep="\t", header=False, index=False)
    return p


def _result(uri, cols=("count",)):
    import cooler
    c = cooler.Cooler(uri)
    return project.pixel_rows(c.pixels()[:], ["bin1_id", "bin2_id", *cols])


def _prior_sibling(case):
    """The process has, before the case, binned a record against ANOTHER bin table over the same chromosomes and lengths
    (a second digest of the same genome) - through both sanitizer factories."""
    if not case.get("prior_sibling"):
        return
    import pandas as pd
    from cooler.create import sanitize_pixels, sanitize_records
    sib = gen.bins_frame(gen.sibling_table(case["table"]), _VEC["names"])
    f = pd.DataFrame({"chrom1": [cname(0)], "pos1": [0], "chrom2": [cname(0)], "pos2": [0]})
    sanitize_records(sib, schema="pairs", tril_action="reflect", sort=True, validate=True)(f)
    sanitize_pixels(sib, tril_action="reflect", sort=True)(pd.DataFrame({"bin1_id": [0], "bin2_id": [0], "count": [1]}))


def _chunks(rows, size):
    return [rows[k:k + size] for k in range(0, len(rows), size)] or [[]]


def _cli(args):
    from click.testing import CliRunner
    from cooler.cli import cli
    res = CliRunner().invoke(cli, args)
    if res.exit_code != 0:
        ex = res.exception
        return type(ex).__name__ if isinstance(ex, Exception) else f"exit{res.exit_code}"
    return ""


@driver("ig.records")
def ig_records(case, ctx):
    """Contact records (pairs) through the Python API or `cooler cload pairs`."""
    use_names(case)
    import cooler
    import pandas as pd
    from cooler.create import aggregate_records, sanitize_records
    d = ctx.subdir()
    table, recs, tril = case["table"], case["recs"], case["tril"]
    out = os.path.join(d, "out.cool")
    symm = tril != "none"
    if case["via"] == "api":
        bins = gen.bins_frame(table, _VEC["names"])
        _prior_sibling(case)
        enc = case.get("chrom_ids") == "integer"      # chromosome columns already hold the integer IDs (unknown: -1)
        san = sanitize_records(bins, schema="pairs", decode_chroms=not enc, is_one_based=case["one_based"],
                               tril_action=None if tril == "none" else tril, sort=True, validate=True)
        agg = aggregate_records(count=True, sort=False)

        def frames():
            pdt = case.get("pos_dtype", "int64")
            for k, ch in enumerate(_chunks(recs, case["chunk"])):
                f = pd.DataFrame({"chrom1": [cname(r[0]) for r in ch], "pos1": np.array([r[1] for r in ch], dtype=pdt),
                                  "chrom2": [cname(r[2]) for r in ch], "pos2": np.array([r[3] for r in ch], dtype=pdt)})
                if enc:
                    f["chrom1"] = np.array([r[0] for r in ch], dtype=np.int64)
                    f["chrom2"] = np.array([r[2] for r in ch], dtype=np.int64)
                elif case.get("chrom_cat") == "lexical":
                    # chromosome columns as UNORDERED categoricals over the table's chromosomes in lexical order
                    import pandas as _pd
                    nch = 1 + max(t[0] for t in table)
                    cats = sorted(_VEC["names"][:nch])
                    f["chrom1"] = _pd.Categorical(f["chrom1"], categories=cats)
                    f["chrom2"] = _pd.Categorical(f["chrom2"], categories=cats)
                if case.get("labels") == "offset":          # row labels as a text reader leaves them on the k-th chunk of a file
                    f.index = f.index + k * case["chunk"] + 5
                elif case.get("labels") == "perm":
                    lab = list(range(len(f)))
                    random.Random(7 * len(f) + k).shuffle(lab)
                    f.index = lab
                yield f
        try:
            cooler.create_cooler(out, bins, (agg(san(f)) for f in frames()), ordered=False, symmetric_upper=symm,
                                 boundscheck=False, triucheck=False, dupcheck=False, temp_dir=d,
                                 max_merge=case.get("max_merge", 200))
        except Exception as ex:
            return {"err": type(ex).__name__}
    else:
        txt = os.path.join(d, "pairs.txt")
        with open(txt, "w") as f:
            if case.get("header"):
                f.write("## pairs format v1.0\n#columns: readID chrom1 pos1 chrom2 pos2 strand1 strand2\n")
            for k, r in enumerate(recs):
                f.write(f"r{k}\t{cname(r[0])}\t{r[1]}\t{cname(r[2])}\t{r[3]}\t+\t-\n")
        args = ["cload", "pairs", _bins_arg(d, table), txt, out, "-c1", "2", "-p1", "3", "-c2", "4", "-p2", "5",
                "--chunksize", str(case["chunk"]), "--temp-dir", d]
        if case.get("max_merge"):
            args += ["--max-merge", str(case["max_merge"])]
        if not case["one_based"]:
            args.append("--zero-based")
        if tril == "drop":
            args += ["--input-copy-status", "duplex"]
        if tril == "none":
            args.append("--no-symmetric-upper")
        err = _cli(args)
        if err:
            return {"err": err}
    return {"err": "", "px": _result(out)}


@driver("ig.bg2")
def ig_bg2(case, ctx):
    """Pre-binned bedGraph-2D records <<c1, start1, c2, start2, v>> through the API or `cooler load -f bg2`."""
    use_names(case)
    import cooler
    import pandas as pd
    from cooler.create import sanitize_records
    d = ctx.subdir()
    table, recs, tril = case["table"], case["recs"], case["tril"]
    out = os.path.join(d, "out.cool")
    symm = tril != "none"
    if case["via"] == "api":
        bins = gen.bins_frame(table, _VEC["names"])
        _prior_sibling(case)
        san = sanitize_records(bins, schema="bg2", is_one_based=case["one_based"],
                               tril_action=None if tril == "none" else tril, sort=True)

        def frames():
            for ch in _chunks(recs, case["chunk"]):
                f = pd.DataFrame({"chrom1": [cname(r[0]) for r in ch], "start1": np.array([r[1] for r in ch], dtype=np.int64),
                                  "end1": np.array([r[1] + 1 for r in ch], dtype=np.int64),
                                  "chrom2": [cname(r[2]) for r in ch], "start2": np.array([r[3] for r in ch], dtype=np.int64),
                                  "end2": np.array([r[3] + 1 for r in ch], dtype=np.int64),
                                  "count": np.array([r[4] for r in ch], dtype=np.int64)})
                g = san(f)
                yield g.groupby(["bin1_id", "bin2_id"], as_index=False)[["count"]].sum() if len(g) else g[["bin1_id", "bin2_id", "count"]]
        try:
            cooler.create_cooler(out, bins, frames(), ordered=False, symmetric_upper=symm, temp_dir=d)
        except Exception as ex:
            return {"err": type(ex).__name__}
    else:
        txt = os.path.join(d, "px.bg2")
        with open(txt, "w") as f:
            for r in recs:
                f.write(f"{cname(r[0])}\t{r[1]}\t{r[1] + 1}\t{cname(r[2])}\t{r[3]}\t{r[3] + 1}\t{r[4]}\n")
        args = ["load", "-f", "bg2", _bins_arg(d, table), txt, out, "--chunksize", str(case["chunk"]), "--temp-dir", d]
        if case.get("mergebuf"):
            args += ["--mergebuf", str(case["mergebuf"])]
        if case["one_based"]:
            args.append("--one-based")
        if tril == "drop":
            args += ["--input-copy-status", "duplex"]
        if tril == "none":
            args.append("--no-symmetric-upper")
        err = _cli(args)
        if err:
            return {"err": err}
    return {"err": "", "px": _result(out)}


@driver("ig.coo")
def ig_coo(case, ctx):
    use_names(case)
    import cooler
    import pandas as pd
    from cooler.create import sanitize_pixels
    d = ctx.subdir()
    table, px, tril = case["table"], case["px"], case["tril"]
    out = os.path.join(d, "out.cool")
    symm = tril != "none"
    if case["via"] == "api":
        bins = gen.bins_frame(table, _VEC["names"])
        _prior_sibling(case)
        san = sanitize_pixels(bins, is_one_based=case["one_based"], tril_action=None if tril == "none" else tril, sort=True)

        def frames():
            for ch in _chunks(px, case["chunk"]):
                g = san(gen.pixels_frame(ch, dtypes={"count": np.int64}))
                yield g.groupby(["bin1_id", "bin2_id"], as_index=False)[["count"]].sum() if len(g) else g
        try:
            cooler.create_cooler(out, bins, frames(), ordered=False, symmetric_upper=symm, temp_dir=d)
        except Exception as ex:
            return {"err": type(ex).__name__}
    else:
        txt = os.path.join(d, "px.coo")
        with open(txt, "w") as f:
            for p in px:
                f.write(f"{p[0]}\t{p[1]}\t{p[2]}\n")
        args = ["load", "-f", "coo", _bins_arg(d, table), txt, out, "--chunksize", str(case["chunk"]), "--temp-dir", d]
        if case.get("mergebuf"):
            args += ["--mergebuf", str(case["mergebuf"])]          # (default: the chunk size)
        if case["one_based"]:
            args.append("--one-based")
        if tril == "drop":
            args += ["--input-copy-status", "duplex"]
        if tril == "none":
            args.append("--no-symmetric-upper")
        err = _cli(args)
        if err:
            return {"err": err}
    return {"err": "", "px": _result(out)}


@driver("ig.tabix")
def ig_tabix(case, ctx):
    """`cooler cload tabix` on a bgzip-compressed, tabix-indexed, sorted upper-triangle pairs file (1-based)."""
    use_names(case)
    import pysam
    d = ctx.subdir()
    table, recs = case["table"], case["recs"]
    txt = os.path.join(d, "pairs.txt")
    with open(txt, "w") as f:
        for r in recs:
            f.write(f"{cname(r[0])}\t{r[1]}\t{cname(r[2])}\t{r[3]}\n")
    gz = txt + ".gz"
    pysam.tabix_compress(txt, gz, force=True)
    pysam.tabix_index(gz, seq_col=0, start_col=1, end_col=1, force=True)
    out = os.path.join(d, "out.cool")
    args = ["cload", "tabix", _bins_arg(d, table), gz, out, "-c2", "3", "-p2", "4", "-p", "1"]
    if case.get("max_split"):
        args += ["-s", str(case["max_split"])]
    err = _cli(args)
    if err:
        return {"err": err}
    return {"err": "", "px": _result(out)}
