"""Drivers for merging (C07) and unordered ingestion (C06)."""
from __future__ import annotations

import os

import numpy as np

from .. import gen, project
from ..core import driver


def _small(v):
    """Totals of the cases of these drivers stay far below 2^31; a recorded total beyond TLC's integers is projected to -1 (equal to
    no legitimate total), so that it is judged - as wrong - instead of stopping the validation."""
    return v if -2 ** 31 < v < 2 ** 31 - 1 else -1


def _dtypes(cols, bits, unsigned=False):
    return {c: f"{'u' if unsigned else ''}int{bits}" for c in cols}


def _mk_inputs(case, d):
    import cooler
    bins = gen.bins_frame(case["table"])
    cols = case["cols"]
    uris = []
    for k, px in enumerate(case["inputs"]):
        # inputs in files of their own, or all of them as groups of ONE file (e.g. the cells of a single-cell file)
        p = os.path.join(d, "in.cool") + f"::/cells/s{k}" if case.get("shared_file") else os.path.join(d, f"in{k}.cool")
        bits = case["bits_in"][k] if "bits_in" in case else case["bits"]
        fr = gen.pixels_frame(px, cols, {c: np.int64 for c in cols})
        dts = _dtypes(cols, bits, case.get("unsigned", False))
        if case.get("scale", 1) != 1:
            # float64 value columns holding exact multiples of 1/scale (case values are in units of 1/scale)
            for c in cols:
                fr[c] = fr[c].astype(np.float64) / case["scale"]
            dts = {c: "float64" for c in cols}
        cooler.create_cooler(p, bins, fr, columns=cols if cols != ["count"] else None, dtypes=dts,
                             ordered=True, symmetric_upper=case["mode"] == "symm", mode="a" if case.get("shared_file") else "w")
        uris.append(p)
    return uris


@driver("mg.merge")
def mg_merge(case, ctx):
    import cooler
    d = ctx.subdir()
    uris = _mk_inputs(case, d)
    cols = case["cols"]
    uris = [uris[k] for k in case["order"]]
    agg = {c: f for c, f in zip(cols, case["aggs"]) if f != "sum"} or None
    out = os.path.join(d, "out.cool")
    kw = dict(columns=cols if cols != ["count"] else None, agg=agg)
    if case.get("reuse_dtypes"):
        # the caller keeps ONE dtype mapping for several merges: an earlier merge of narrow (int8) coolers went through it
        dt = {}
        small = []
        for k in range(2):
            p = os.path.join(d, f"small{k}.cool")
            cooler.create_cooler(p, gen.bins_frame(case["table"]), gen.pixels_frame([[0, 0] + [1] * len(cols)], cols,
                                 {c: np.int64 for c in cols}), columns=cols if cols != ["count"] else None,
                                 dtypes=_dtypes(cols, 8), ordered=True, symmetric_upper=case["mode"] == "symm")
            small.append(p)
        cooler.merge_coolers(os.path.join(d, "earlier.cool"), small, mergebuf=10, dtypes=dt, **kw)
        kw["dtypes"] = dt
    if case.get("partial_dtypes"):
        # a dtype is given for the LAST column only; the others must still take the (common) type of the inputs
        kw["dtypes"] = {cols[-1]: np.dtype("float64" if case.get("scale", 1) != 1 else "int64")}
    try:
        if case.get("via") == "cli":
            from click.testing import CliRunner
            from cooler.cli import cli
            args = ["merge", out, *uris, "-c", str(case["buf"])]
            if cols != ["count"] or agg:
                for c, f in zip(cols, case["aggs"]):
                    # field specifiers: with the aggregate spelled out, or bare where the aggregate is the default (sum)
                    args += ["--field", c if (f == "sum" and case.get("barefields")) else f"{c}:agg={f}"]
            res = CliRunner().invoke(cli, args)
            if res.exit_code != 0:
                raise res.exception if isinstance(res.exception, Exception) else RuntimeError(res.output[-200:])
        elif case.get("nested"):
            tmp = os.path.join(d, "tmp.cool")
            cut = case["nested"]
            cooler.merge_coolers(tmp, uris[:cut], mergebuf=case["buf"], **kw)
            cooler.merge_coolers(out, [tmp, *uris[cut:]] if case.get("left", True) else [*uris[cut:], tmp],
                                 mergebuf=case["buf2"], **kw)
        else:
            cooler.merge_coolers(out, uris, mergebuf=case["buf"], **kw)
    except Exception as ex:
        return {"err": type(ex).__name__, "msg": str(ex)[:120]}
    c = cooler.Cooler(out)
    sc = case.get("scale", 1)
    return {"err": "", "px": project.pixel_rows(c.pixels()[:], ["bin1_id", "bin2_id", *cols], sc),
            "sum": _small(project.to_int(c.info["sum"] * sc)) if "sum" in c.info else 0, "raw": project.raw_uri(out, scale=sc)}


@driver("mg.incompat")
def mg_incompat(case, ctx):
    import cooler
    d = ctx.subdir()
    uris = []
    for k, (table, mode, names) in enumerate(zip(case["tables"], case["modes"], case["names"])):
        p = os.path.join(d, f"in{k}.cool")
        n = len(table)
        px = [] if case.get("empty", [False] * 9)[k] else [[i, i, 1] for i in range(n)]
        cooler.create_cooler(p, gen.bins_frame(table, names), gen.pixels_frame(px), ordered=True,
                             symmetric_upper=mode == "symm")
        uris.append(p)
    out = os.path.join(d, "out.cool")
    try:
        cooler.merge_coolers(out, uris, mergebuf=case["buf"])
        err = "none"
    except Exception as ex:
        err = type(ex).__name__
    return {"err": err, "out_is_cooler": bool(os.path.exists(out) and cooler.fileops.is_cooler(out))}


@driver("mg.breakpoints")
def mg_breakpoints(case, ctx):
    from cooler._reduce import merge_breakpoints
    idx = [np.array(a, dtype=np.int64) for a in case["idx"]]
    part, cum = merge_breakpoints(idx, case["buf"])
    return {"part": project.ints(part), "cum": project.ints(cum)}


@driver("mg.unordered")
def mg_unordered(case, ctx):
    import cooler
    import cooler.create._create as cc
    d = ctx.subdir()
    tmpd = os.path.join(d, "tmp")
    os.makedirs(tmpd)
    bins = gen.bins_frame(case["table"])
    cols = case["cols"]
    frames = [gen.pixels_frame(px, cols, {c: np.int64 for c in cols}) for px in case["chunks"]]
    if case.get("id_dtype"):                    # the dtype of the ID columns handed in (the IDs fit)
        for f in frames:
            f["bin1_id"] = f["bin1_id"].astype(case["id_dtype"])
            f["bin2_id"] = f["bin2_id"].astype(case["id_dtype"])
    if case.get("labels") == "perm":            # row labels: a permutation of 0..k-1 (e.g. a shuffled frame that was not re-indexed)
        import random as _random
        for k, f in enumerate(frames):
            lab = list(range(len(f)))
            _random.Random(31 * len(f) + k).shuffle(lab)
            f.index = lab
    elif case.get("labels") == "offset":
        for f in frames:
            f.index = f.index + 1000
    scale = case.get("scale", 1)
    extra = {}
    if scale != 1:                              # float64 value columns holding exact multiples of 1/scale
        for f in frames:
            for c in cols:
                f[c] = f[c].astype(np.float64) / scale
        extra["dtypes"] = {c: np.float64 for c in cols}
    if case.get("dupcheck") is False:
        extra["dupcheck"] = False
    if case.get("checks_off"):                  # valid input with every check switched off (sorting may still be requested)
        extra.update({"boundscheck": False, "triucheck": False, "dupcheck": False})
    if case.get("val_dtype"):                   # narrow value columns: every chunk fits, the aggregate over chunks may not
        for f in frames:
            for c in cols:
                f[c] = f[c].astype(case["val_dtype"])
        extra["dtypes"] = {c: np.dtype(case["val_dtype"]) for c in cols}
    if case.get("stored_id_dtype"):             # compact bin-ID columns asked for in the file (all IDs fit)
        extra.setdefault("dtypes", {}).update({"bin1_id": np.dtype(case["stored_id_dtype"]), "bin2_id": np.dtype(case["stored_id_dtype"])})
    if case.get("assembly"):
        extra["assembly"] = case["assembly"]
    if case.get("meta_tag"):
        extra["metadata"] = {"tag": case["meta_tag"], "nested": {"k": [1, 2]}}
    if case["form"] == "dict":
        frames = [{k: v.values for k, v in f.items()} for f in frames]
    out = os.path.join(d, "out.cool")
    uri = out if case.get("group", "/") == "/" else out + "::" + case["group"]
    # observe whether the two-pass path is taken (a second temporary multi-collection file appears)
    made = []
    real_ntf = cc.tempfile.NamedTemporaryFile

    def spy(*a, **k):
        tf = real_ntf(*a, **k)
        made.append(tf.name)
        return tf
    cc.tempfile.NamedTemporaryFile = spy
    try:
        cooler.create_cooler(uri, bins, iter(frames), columns=cols if cols != ["count"] else None,
                             ordered=False, symmetric_upper=case["mode"] == "symm", mergebuf=case["buf"],
                             max_merge=case["max_merge"], temp_dir=tmpd, ensure_sorted=case.get("ensure_sorted", False), **extra)
        err = ""
    except Exception as ex:
        return {"err": f"{type(ex).__name__}: {str(ex)[:100]}"}
    finally:
        cc.tempfile.NamedTemporaryFile = real_ntf
    c = cooler.Cooler(uri)
    px = project.pixel_rows(c.pixels()[:], ["bin1_id", "bin2_id", *cols], scale)
    if scale != 1:
        import h5py
        from cooler.util import parse_cooler_uri
        fp, gp = parse_cooler_uri(uri)
        with h5py.File(fp, "r+") as f:          # scale the stored columns so that the raw projection is integral
            g = f[gp]
            for name in cols:
                vals = g["pixels"][name][:].astype(np.float64) * scale
                del g["pixels"][name]
                g["pixels"].create_dataset(name, data=np.round(vals).astype(np.int64))
            if "sum" in g.attrs:
                g.attrs["sum"] = int(round(float(g.attrs["sum"]) * scale))
    md = c.info.get("metadata", {})
    return {"err": err, "px": px,
            "raw": project.raw_uri(uri), "temp_after": sorted(os.listdir(tmpd)), "two_pass": len(made) > 1,
            "assembly": str(c.info.get("genome-assembly", "MISSING")),
            "meta_tag": project.to_int(md.get("tag", 0)) if isinstance(md, dict) else -1}


@driver("mg.fits")
def mg_fits(case, ctx):
    """create_cooler with a value column handed in as one integer dtype and stored as another (same width or not, signed or
    not): either every value is stored exactly or the call fails - never something else."""
    import cooler
    d = ctx.subdir()
    out = os.path.join(d, "o.cool")
    table = gen.simple_table(3)
    px = case["px"]
    fr = gen.pixels_frame(px, ["count"], {"count": np.int64})
    fr["count"] = fr["count"].astype(case["in_dtype"])
    if case.get("form") == "dict":
        fr = {k: fr[k].values for k in fr.columns}
    try:
        cooler.create_cooler(out, gen.bins_frame(table), fr, dtypes={"count": np.dtype(case["out_dtype"])}, ordered=True)
    except Exception as ex:
        return {"err": type(ex).__name__, "px": [], "sum": 0, "is_cooler": bool(os.path.exists(out) and cooler.fileops.is_cooler(out))}
    c = cooler.Cooler(out)
    return {"err": "", "px": project.pixel_rows(c.pixels()[:], ["bin1_id", "bin2_id", "count"]), "sum": _small(project.to_int(c.info["sum"])),
            "is_cooler": True}
