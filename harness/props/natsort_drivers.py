"""Drivers for natural ordering of sequence names and read_chromsizes (spec/NatSort.tla)."""
from __future__ import annotations

import io

from ..core import driver


def cps(s):
    return [ord(c) for c in s]


@driver("ns.argsort")
def ns_argsort(case, ctx):
    from cooler.util import argnatsort, natsorted
    names = ["".join(chr(c) for c in n) for n in case["names"]]
    order = [int(i) for i in argnatsort(names)]
    try:
        srt, err = [cps(s) for s in natsorted(names)], ""
    except Exception as ex:               # natsorted cannot compare a number with text at the same position
        srt, err = [], type(ex).__name__
    return {"order": order, "sorted": srt, "sorted_err": err}


@driver("ns.chromsizes")
def ns_chromsizes(case, ctx):
    from cooler.util import read_chromsizes
    names = ["".join(chr(c) for c in n) for n in case["names"]]
    text = "".join(f"{n}\t{ln}\n" for n, ln in zip(names, case["lengths"]))
    kw = {}
    if case["mode"] == "all":
        kw["all_names"] = True
    elif case["mode"] == "prefix":
        kw["name_patterns"] = (r"^chr",)
    cs = read_chromsizes(io.StringIO(text), **kw)
    return {"names": [cps(str(n)) for n in cs.index], "lengths": [int(x) for x in cs.values]}
