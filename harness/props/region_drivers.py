"""Drivers for region and URI strings (C19)."""
from __future__ import annotations

from ..core import driver


def cps(s):
    return [ord(c) for c in s]


def txt(c):
    return "".join(chr(x) for x in c)


def _digits(v):
    return [] if v is None else cps(str(int(v)))


@driver("rg.parse")
def rg_parse(case, ctx):
    from cooler.util import parse_region_string
    try:
        name, s, e = parse_region_string(txt(case["text"]))
    except Exception as ex:
        return {"err": type(ex).__name__, "msg": str(ex)[:80]}
    return {"err": "", "name": cps(name), "s": _digits(s), "e": _digits(e)}


@driver("rg.malformed")
def rg_malformed(case, ctx):
    import pandas as pd
    from cooler.util import parse_region, parse_region_string
    t = txt(case["text"])
    try:
        if case.get("with_sizes"):
            parse_region(t, pd.Series({"chr1": 10 ** 9, "c": 10 ** 9}))
        else:
            parse_region_string(t)
        return {"err": "none"}
    except Exception as ex:
        return {"err": type(ex).__name__}


@driver("rg.bounds")
def rg_bounds(case, ctx):
    import pandas as pd
    from cooler.util import parse_region
    sizes = pd.Series(dict(case["sizes"]))
    reg = case["reg"]
    if isinstance(reg, list):
        reg = (reg[0], reg[1][0] if reg[1] else None, reg[2][0] if reg[2] else None)
    try:
        name, s, e = parse_region(reg, sizes)
    except Exception as ex:
        return {"err": type(ex).__name__}
    return {"err": "", "name": str(name), "s": int(s), "e": int(e)}


@driver("rg.roundtrip")
def rg_roundtrip(case, ctx):
    from cooler.util import parse_region_string
    name, s, e = txt(case["name"]), int(txt(case["s"])), int(txt(case["e"]))
    out = []
    for text in (f"{name}:{s}-{e}", f"{name}:{s:,}-{e:,}", f"{name}: {s} - {e}"):
        try:
            n2, s2, e2 = parse_region_string(text)
            out.append({"err": "", "name": cps(n2), "s": _digits(s2), "e": _digits(e2)})
        except Exception as ex:
            out.append({"err": type(ex).__name__, "name": [], "s": [], "e": []})
    return {"q": out}


@driver("rg.uri")
def rg_uri(case, ctx):
    from cooler.util import parse_cooler_uri
    try:
        f, g = parse_cooler_uri(txt(case["text"]))
    except Exception as ex:
        return {"err": type(ex).__name__}
    return {"err": "", "file": cps(f), "group": cps(g)}
