"""Drivers for 2-D range queries (C03, C12): run the real engines / the real API and record results."""
from __future__ import annotations

import numpy as np

from .. import gen
from ..core import driver


def _arrays(case):
    px = case["px"]
    b1 = np.array([p[0] for p in px], dtype=np.int64)
    b2 = np.array([p[1] for p in px], dtype=np.int64)
    v = np.array([p[2] for p in px], dtype=np.int32)
    return b1, b2, v


def _triples(d, field="count"):
    return [[int(a), int(b), int(c)] for a, b, c in zip(d["bin1_id"], d["bin2_id"], d[field])]


@driver("rq.engine")
def rq_engine(case, ctx):
    """Both query engines called directly (dict-like pixel group) on every window of the store."""
    from cooler.core import CSRReader, DirectRangeQuery2D, FillLowerRangeQuery2D
    n, mode, chunk = case["n"], case["mode"], case["chunk"]
    b1, b2, v = _arrays(case)
    grp = {"bin1_id": b1, "bin2_id": b2, "count": v}
    offsets = np.searchsorted(b1, np.arange(n + 1), "left")   # the (valid) row index is an input here
    reader = CSRReader(grp, offsets)
    out = []
    for w in gen.windows(n):
        d = DirectRangeQuery2D(reader, "count", tuple(w), chunk, return_index=True).get()
        item = {"w": w, "direct": _triples(d), "didx": [int(x) for x in d["__index"]]}
        if mode == "symm":
            eng = FillLowerRangeQuery2D(reader, "count", tuple(w), chunk)
            item["fill"] = _triples(eng.get())
            boxes, edges = [], []
            try:
                for bb in eng._bboxes:
                    tasks = [t for t in eng.tasks if tuple(t[2]) == tuple(bb)]
                    trs = {0 if t[0] is reader else 1 for t in tasks}
                    tr = trs.pop() if len(trs) == 1 else -1
                    boxes.append([int(x) for x in bb] + [tr])
                    e = []
                    for t in tasks:
                        if not e:
                            e.append(int(t[3][0]))
                        e.append(int(t[3][1]))
                    edges.append(e)
                item["hasint"] = True
            except Exception:
                boxes, edges = [], []
                item["hasint"] = False
            item["boxes"], item["edges"] = boxes, edges
        out.append(item)
    return {"q": out}


@driver("rq.reader")
def rq_reader(case, ctx):
    """CSRReader.__call__ on every (bbox, row span, reflect) of a store."""
    from cooler.core import CSRReader
    n = case["n"]
    b1, b2, v = _arrays(case)
    grp = {"bin1_id": b1, "bin2_id": b2, "count": v}
    offsets = np.searchsorted(b1, np.arange(n + 1), "left")
    reader = CSRReader(grp, offsets)
    out = []
    for w in gen.windows(n):
        i0, i1 = w[0], w[1]
        for s0 in range(i0, i1 + 1):
            for s1 in range(s0, i1 + 1):
                for reflect in (False, True):
                    d = reader("count", tuple(w), (s0, s1), reflect)
                    out.append({"box": w, "span": [s0, s1], "reflect": reflect, "out": _triples(d)})
    return {"q": out}


def _open(case, ctx, weights=None):
    """Create a real cooler for the case (at the file root, or in the group case["at"] next to a decoy collection with other
    content and other weights at the root); returns its URI."""
    n = case["n"]
    table = case.get("table") or gen.simple_table(n)
    uri = gen.place(ctx.path(), table, case["px"], case["mode"], at=case.get("at"), scale=case.get("scale", 1),
                    prior=case.get("prior", False))
    if case.get("int_chroms"):
        gen.int_encode(uri)
    if weights:
        import h5py
        fp, grp = gen.split_uri(uri)
        with h5py.File(fp, "r+") as f:
            for name, vals in weights.items():
                f[grp]["bins"].create_dataset(name, data=np.array(vals, dtype=float))
                if grp != "/":
                    f["bins"].create_dataset(name, data=np.array([2.0 if v == v and v != 2.0 else 4.0 for v in vals], dtype=float))
    return uri


def _with_cooler(case, uri, fn):
    import cooler
    import h5py
    how = case.get("open", "handle")
    fp, grp = gen.split_uri(uri)
    if how == "path":
        return fn(cooler.Cooler(uri))
    if how == "uri":
        return fn(cooler.Cooler(fp + "::" + (grp if grp == "/" else grp.lstrip("/"))))     # group without the leading slash
    with h5py.File(fp, "r") as f:
        return fn(cooler.Cooler(f[grp]))


@driver("rq.api")
def rq_api(case, ctx):
    """Cooler.matrix(...)[i0:i1, j0:j1]: dense, sparse and pixel output for a list of windows."""
    path = _open(case, ctx)
    chunk = case["chunk"]
    sc = case.get("scale", 1)

    def iv(x):                            # values are exact multiples of 1/scale: project x * scale, exactly
        if sc == 1:
            return int(x)
        y = float(x) * sc
        if y != int(y):
            from ..tlc import MachineryError
            raise MachineryError(f"value {x!r} is not a multiple of 1/{sc}")
        return int(y)

    def run(c):
        out = []
        for w in case["wins"]:
            i0, i1, j0, j1 = w
            sp = c.matrix(balance=False, sparse=True, chunksize=chunk)[i0:i1, j0:j1]
            de = c.matrix(balance=False, sparse=False, chunksize=chunk)[i0:i1, j0:j1]
            p0 = c.matrix(balance=False, as_pixels=True, chunksize=chunk)[i0:i1, j0:j1]
            p1 = c.matrix(balance=False, as_pixels=True, ignore_index=False, chunksize=chunk)[i0:i1, j0:j1]
            out.append({
                "w": w,
                "shape": [int(sp.shape[0]), int(sp.shape[1])],
                "sparse": [[int(r), int(cc), iv(x)] for r, cc, x in zip(sp.row, sp.col, sp.data)],
                "dense": [[iv(x) for x in row] for row in de],
                "pixels": [[int(a), int(b), iv(x)] for a, b, x in zip(p0["bin1_id"], p0["bin2_id"], p0["count"])],
                "pidx0": [int(x) for x in p0.index],
                "pidx": [int(x) for x in p1.index],
            })
            if case.get("table"):
                names = gen.CHROMNAMES
                pj = c.matrix(balance=False, as_pixels=True, join=True, chunksize=chunk)[i0:i1, j0:j1]
                ix = lambda x: names.index(str(x)) if str(x) in names else -1          # a label that is no chromosome name
                out[-1]["joined"] = [[ix(a), int(b), int(cc), ix(d), int(e), int(f), iv(v)]
                                     for a, b, cc, d, e, f, v in zip(pj["chrom1"], pj["start1"], pj["end1"], pj["chrom2"],
                                                                    pj["start2"], pj["end2"], pj["count"])]
                # the joined records with their labels kept (ignore_index=False)
                pj1 = c.matrix(balance=False, as_pixels=True, join=True, ignore_index=False, chunksize=chunk)[i0:i1, j0:j1]
                out[-1]["pidx_joined"] = [int(x) for x in pj1.index]
        return out
    return {"q": _with_cooler(case, path, run)}


def _spell(s):
    conv = getattr(np, s["np"]) if s.get("np") else int          # the index as a NumPy scalar of that dtype (it fits)
    if s["kind"] == "scalar":
        return conv(s["a"][0])
    return slice(conv(s["a"][0]) if s["a"] else None, conv(s["b"][0]) if s["b"] else None)


@driver("rq.slice")
def rq_slice(case, ctx):
    """Slice spellings (None, negative, scalar) through Cooler.matrix()[key]."""
    path = _open(case, ctx)

    def run(c):
        out = []
        sel = c.matrix(balance=False, sparse=True, chunksize=case["chunk"])
        for rs, cs in case["keys"]:
            sp = sel[_spell(rs), _spell(cs)]
            rn = sel._process_slice(_spell(rs), c.shape[0])
            cn = sel._process_slice(_spell(cs), c.shape[1])
            out.append({"rs": rs, "cs": cs, "shape": [int(sp.shape[0]), int(sp.shape[1])],
                        "sparse": [[int(r), int(cc), int(x)] for r, cc, x in zip(sp.row, sp.col, sp.data)],
                        "rnorm": [int(rn[0]), int(rn[1])], "cnorm": [int(cn[0]), int(cn[1])]})
        oob = []
        for rs, cs in case.get("oob_keys", []):
            # bounds beyond the table / reversed ranges: what an array selects is well defined (clipping; empty)
            try:
                sp = sel[_spell(rs), _spell(cs)]
                oob.append({"rs": rs, "cs": cs, "err": "", "shape": [int(sp.shape[0]), int(sp.shape[1])],
                            "sparse": [[int(r), int(cc), int(x)] for r, cc, x in zip(sp.row, sp.col, sp.data)]})
            except Exception as ex:
                oob.append({"rs": rs, "cs": cs, "err": type(ex).__name__, "shape": [0, 0], "sparse": []})
        return out, oob
    out, oob = _with_cooler(case, path, run)
    return {"q": out, "q_oob": oob} if "oob_keys" in case else {"q": out}


SC = 8   # results are scaled by 2^SC (RangeQuery!SC)


def _scaled(x):
    """Exact integer x * 2^SC, or -1 for NaN.  Weights are powers of two, so this is exact."""
    if np.isnan(x):
        return -1
    y = float(x) * (1 << SC)
    if y != int(y) or y < 0:
        raise ValueError(f"balanced value {x!r} is not an exact non-negative multiple of 2^-{SC}")
    return int(y)


@driver("rq.balanced")
def rq_balanced(case, ctx):
    """Balanced reads: weights are 2^e or NaN; every result is reported exactly, scaled by 2^SC."""
    wvals = [float("nan") if e < 0 else float(2 ** e) for e in case["wexp"]]
    other = [float(2 ** ((k * 3 + 1) % 4)) for k in range(len(wvals))]   # a decoy column with other weights
    name = case["wname"]
    first = case.get("wexp_first") or []
    rewrite = bool(first) and case.get("open", "handle") != "handle"      # (a file held open read-only cannot be rewritten)
    w0 = [float("nan") if e < 0 else float(2 ** e) for e in first] if rewrite else wvals
    path = _open(case, ctx, {name: w0, ("other" if name != "other" else "weight"): other})
    kw = {}
    if case["divisive"] != "None":
        kw["divisive_weights"] = case["divisive"] == "True"
    bal = True if (name == "weight" and case.get("as_true", False)) else name
    chunk = case["chunk"]

    def run(c):
        out = []
        if rewrite:
            # this object serves balanced reads with the EARLIER weights first (all three forms); then the column is
            # rewritten in the file, as re-balancing with storage does
            import h5py
            for k2 in ({"sparse": True}, {"sparse": False}, {"as_pixels": True}):
                c.matrix(balance=bal, chunksize=chunk, **k2, **kw)[:, :]
            fp, grp = gen.split_uri(path)
            with h5py.File(fp, "r+") as f:
                del f[grp]["bins"][name]
                f[grp]["bins"].create_dataset(name, data=np.array(wvals, dtype=float))
        for w in case["wins"]:
            i0, i1, j0, j1 = w
            sp = c.matrix(balance=bal, sparse=True, chunksize=chunk, **kw)[i0:i1, j0:j1]
            de = c.matrix(balance=bal, sparse=False, chunksize=chunk, **kw)[i0:i1, j0:j1]
            p0 = c.matrix(balance=bal, as_pixels=True, chunksize=chunk, **kw)[i0:i1, j0:j1]
            p1 = c.matrix(balance=bal, as_pixels=True, ignore_index=False, chunksize=chunk, **kw)[i0:i1, j0:j1]
            out.append({
                "pixels_labelled": [[int(a), int(b), int(x), _scaled(y)] for a, b, x, y in
                                    zip(p1["bin1_id"], p1["bin2_id"], p1["count"], p1["balanced"])],
                "pidx": [int(x) for x in p1.index],
                "w": w,
                "sparse": [[int(r), int(cc), _scaled(x)] for r, cc, x in zip(sp.row, sp.col, sp.data)],
                "dense": [[_scaled(x) for x in row] for row in de],
                "pixels": [[int(a), int(b), int(x), _scaled(y)] for a, b, x, y in
                           zip(p0["bin1_id"], p0["bin2_id"], p0["count"], p0["balanced"])],
            })
        return out
    return {"q": _with_cooler(case, path, run)}


@driver("rq.missing")
def rq_missing(case, ctx):
    """Asking for a weight column that does not exist."""
    path = _open(case, ctx, {"weight": [1.0] * case["n"]} if case.get("have_weight") else None)

    def run(c):
        out = []
        for form in ("dense", "sparse", "pixels"):
            for w in case["wins"]:
                i0, i1, j0, j1 = w
                try:
                    c.matrix(balance=case["wname"], sparse=form == "sparse", as_pixels=form == "pixels")[i0:i1, j0:j1]
                    err = "none"
                except Exception as ex:   # the class of the refusal is the observation
                    err = type(ex).__name__
                out.append({"w": w, "form": form, "err": err})
        return out
    return {"q": _with_cooler(case, path, run)}
