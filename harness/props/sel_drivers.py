"""Drivers for table selectors and annotation (C14)."""
from __future__ import annotations

import numpy as np

from .. import gen, project
from ..core import driver

NAMES = gen.CHROMNAMES


def _spell(s):
    conv = getattr(np, s["np"]) if s.get("np") else int          # the index as a NumPy scalar of that dtype (it fits)
    if s["kind"] == "scalar":
        return conv(s["a"][0])
    return slice(conv(s["a"][0]) if s["a"] else None, conv(s["b"][0]) if s["b"] else None)


def _cell(col, v):
    if col in ("chrom", "name", "chrom1", "chrom2"):
        return NAMES.index(str(v)) if not isinstance(v, (int, np.integer)) else int(v)
    return project.to_int(v, col)


def _make(case, ctx):
    """URI of the cooler of the case: at the file root or in the group case["at"] (a decoy with other content and another
    extra bin column at the root)."""
    import h5py
    import cooler
    path = ctx.path()
    table = case["table"]
    at = case.get("at")
    uri = path
    if at:
        cooler.create_cooler(path, gen.bins_frame(table, gen.DECOY_NAMES, extra={case.get("wname", "w"): [v + 1 for v in case["w"]]}),
                             gen.pixels_frame(gen.decoy_px(case["px"])), ordered=True, symmetric_upper=case["mode"] == "symm")
        uri = path + "::" + at
    bins = gen.bins_frame(table, extra={case.get("wname", "w"): case["w"]})       # the extra integer column, under any name
    cooler.create_cooler(uri, bins, gen.pixels_frame(case["px"]), ordered=True, symmetric_upper=case["mode"] == "symm", mode="a")
    if case.get("encoding") == "int":
        with h5py.File(path, "r+") as f:
            g = f[at] if at else f
            ids = g["bins/chrom"][:].astype("int32")
            del g["bins/chrom"]
            ds = g["bins"].create_dataset("chrom", data=ids, dtype="int32")
            ds.attrs["enum_path"] = "/chroms/name"
    return uri


@driver("sel.table")
def sel_table(case, ctx):
    import cooler
    path = _make(case, ctx)
    c = cooler.Cooler(path)
    base = c.pixels(join=True) if case.get("joined") else {"chroms": c.chroms, "bins": c.bins, "pixels": c.pixels}[case["which"]]()
    out = []
    for q in case["qs"]:
        item = {"s": q["s"], "colidx": q["colidx"], "colnames": q["colnames"], "err": ""}
        try:
            sel = base
            if q["colnames"] != case["allcols"] or q.get("explicit"):
                sel = base[q["colnames"][0]] if q.get("single") else base[q["colnames"]]
            df = sel[_spell(q["s"])]
            if q.get("single"):
                df = df.to_frame(name=q["colnames"][0])        # (a Series' name is not part of what is judged)
            item["columns"] = [str(x) for x in df.columns]
            item["index"] = project.ints(df.index)
            item["rows"] = [[_cell(col, df[col].iloc[k]) for col in df.columns] for k in range(len(df))]
        except Exception as ex:
            item.update({"err": type(ex).__name__, "columns": [], "index": [], "rows": []})
        out.append(item)
    return {"q": out}


@driver("sel.annotate")
def sel_annotate(case, ctx):
    import cooler
    import pandas as pd
    path = _make(case, ctx)
    c = cooler.Cooler(path)
    px = case["pixels"]
    df = pd.DataFrame({"bin1_id": np.array([p[1] for p in px], dtype=case.get("id_dtype", "int64")),
                       "bin2_id": np.array([p[2] for p in px], dtype=case.get("id_dtype", "int64")),
                       "count": np.array([p[3] for p in px], dtype=np.int64)},
                      index=pd.Index([p[0] for p in px], dtype=np.int64))
    if case.get("rindex"):
        df.index = pd.RangeIndex(*case["rindex"])          # same labels, carried by a RangeIndex
        if [int(x) for x in df.index] != [p[0] for p in px]:
            from ..tlc import MachineryError
            raise MachineryError("sel.annotate: case labels do not match the RangeIndex")
    form = case["bins_form"]
    a, b = case["part"]
    try:
        if form == "selector":
            bins = c.bins()
        elif form == "selector_cols":
            bins = c.bins()[["chrom", "start", "end", "w"]]
        elif form == "frame":
            bins = c.bins()[:]
        elif form == "part":
            bins = c.bins()[a:b]
        elif form == "join":
            # pixels(join=True) on a row range of the stored pixel table
            res = c.pixels(join=True)[case["lo"]:case["hi"]]
            rows = [[int(res.index[k]), NAMES.index(str(res["chrom1"].iloc[k])), int(res["start1"].iloc[k]), int(res["end1"].iloc[k]),
                     NAMES.index(str(res["chrom2"].iloc[k])), int(res["start2"].iloc[k]), int(res["end2"].iloc[k]),
                     int(res["count"].iloc[k])] for k in range(len(res))]
            return {"err": "", "rows": rows}
        else:
            raise ValueError(form)
        res = cooler.annotate(df, bins, replace=True)
    except Exception as ex:
        return {"err": f"{type(ex).__name__}"}
    rows = []
    for k in range(len(res)):
        r = res.iloc[k]
        rows.append([int(res.index[k]), NAMES.index(str(r["chrom1"])), int(r["start1"]), int(r["end1"]), project.to_int(r["w1"]),
                     NAMES.index(str(r["chrom2"])), int(r["start2"]), int(r["end2"]), project.to_int(r["w2"]), int(r["count"])])
    return {"err": "", "rows": rows}
