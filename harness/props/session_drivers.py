"""Driver for in-place mutation of a collection (Session.tla): append / balance (API, CLI) / rename histories."""
from __future__ import annotations

import warnings

import numpy as np

from .. import gen
from ..core import driver

COLS = ["weight", "KR", "x"]
NAMEVECS = [["a", "b", "c"], ["x", "y", "z"]]


def _tag(arr):
    """0 absent is decided by the caller; t > 0: every value equals the integer t; -1: anything else (computed weights)."""
    a = np.asarray(arr, dtype=float)
    if len(a) and np.all(a == a[0]) and a[0] == int(a[0]) and a[0] > 0:
        return int(a[0])
    return -1


def _view(clr, px):
    from .. import project
    b = clr.bins()[:]
    p = clr.pixels()[:]
    names = [str(x) for x in clr.chromnames]
    readable = {}
    for c in COLS:
        try:
            with warnings.catch_warnings():
                warnings.simplefilter("ignore")
                clr.matrix(balance=c)[0:2, 0:2]
            readable[c] = True
        except Exception:
            readable[c] = False
    # every name the object shows resolves to the extent of the chromosome at that position (lengths 4, 3, 2, bin size 1)
    ext = []
    for nm in names:
        try:
            lo, hi = clr.extent(nm)
            ext.append([int(lo), int(hi)])
        except Exception:
            ext.append([-1, -1])
    return {"extents": ext,
            "b": {c: (_tag(b[c].values) if c in b.columns else 0) for c in COLS},
            "p": {c: (_tag(p[c].values) if c in p.columns else 0) for c in COLS},
            "nv": NAMEVECS.index(names) + 1 if names in NAMEVECS else 0,
            "readable": readable,
            "px_ok": project.pixel_rows(p, ["bin1_id", "bin2_id", "count"]) == px}


@driver("ss.history", timeout=300)
def ss_history(case, ctx):
    import cooler
    from click.testing import CliRunner
    from cooler.cli import cli
    from cooler.create import append
    table, px = case["table"], case["px"]
    uri = gen.place(ctx.path(), table, px, "symm", at=case.get("at"), names=NAMEVECS[0])
    n, nnz = len(table), len(px)
    live = cooler.Cooler(uri)
    if case.get("warm"):
        _view(live, px)                          # the live object has been used before the history starts
    steps = []
    for op in case["ops"]:
        err, exit_, printed = "", 0, False
        try:
            if op["op"] == "append":
                m = n if op["tbl"] == "bins" else nnz
                data = {op["c"]: np.full(m, float(op["t"]))}
                if op.get("form") == "frame":
                    import pandas as pd
                    data = pd.DataFrame(data)
                append(uri, op["tbl"], data, force=op["force"])
            elif op["op"] == "balance_api":
                with warnings.catch_warnings():
                    warnings.simplefilter("ignore")
                    cooler.balance_cooler(live if op.get("on") == "live" else cooler.Cooler(uri), store=True, store_name=op["c"],
                                          ignore_diags=False, mad_max=0, min_nnz=0)
            elif op["op"] == "balance_cli":
                args = ["balance", uri, "--name", op["c"], "--ignore-diags", "0", "--mad-max", "0", "--min-nnz", "0"]
                args += ["--force"] if op["force"] else []
                args += ["--check"] if op["check"] else []
                args += ["--stdout"] if op["stdout"] else []
                res = CliRunner().invoke(cli, args)
                if isinstance(res.exception, Exception) and not isinstance(res.exception, SystemExit):
                    raise res.exception
                exit_ = int(res.exit_code)
                lines = [ln for ln in res.output.splitlines() if ln.strip()]
                printed = len(lines) >= n - 1      # one weight per bin (blank for NaN)
            else:
                cooler.rename_chroms(live if op.get("on") == "live" else cooler.Cooler(uri),
                                     dict(zip([str(x) for x in cooler.Cooler(uri).chromnames], NAMEVECS[op["k"] - 1])))
        except Exception as ex:
            err = type(ex).__name__
        steps.append({"err": err, "exit": exit_, "printed": printed, "live": _view(live, px),
                      "fresh": _view(cooler.Cooler(uri), px)})
    return {"steps": steps}
