"""Drivers for histories of file-level operations (C15) on two real files."""
from __future__ import annotations

import gc
import os

from .. import gen, project
from ..core import driver

TABLE = [[0, 0, 2], [0, 2, 4]]
MAGIC = "HDF5::Cooler"


def pstr(p):
    return "/" + "/".join(p)


SPLIT = {"on": False}          # per case: the two files live in different directories


def fpath(d, f):
    """f1 sits in the scratch directory of the case, f2 - when the case says so - in a sub-directory of it."""
    if SPLIT["on"] and f == "f2":
        os.makedirs(os.path.join(d, "elsewhere", "deeper"), exist_ok=True)
        return os.path.join(d, "elsewhere", "deeper", f + ".cool")
    return os.path.join(d, f + ".cool")


def uri(d, f, p, noslash=False):
    fp = fpath(d, f)
    if not p:
        return fp + "::/"
    return fp + "::" + ("/".join(p) if noslash else pstr(p))


def observe_file(fp, paths, via_cli=False):
    import cooler
    import h5py
    if not os.path.exists(fp):
        return {"exists": False, "paths": [{"p": p, "content": -1, "is_cooler": False, "raised": "", "asm": 0, "meta": 0} for p in paths],
                "listing": [], "listing_raised": ""}
    out = []
    for p in paths:
        u = fp + "::" + pstr(p)
        content = -1
        asm = meta = 0
        with h5py.File(fp, "r") as f:
            try:
                g = f[pstr(p)]
                fmt = project.attr(g.attrs.get("format", ""))
                content = 0
            except (KeyError, RuntimeError):      # no such path / dangling link / link loop
                g = None
                fmt = ""
        if g is not None and fmt == MAGIC:
            # read through the public API: the content number is the value of the single pixel (0, 1)
            try:
                px = cooler.Cooler(u).pixels()[:]
                rows = [[int(a), int(b), int(c)] for a, b, c in zip(px["bin1_id"], px["bin2_id"], px["count"])]
                content = rows[0][2] if len(rows) == 1 and rows[0][:2] == [0, 1] else -2
                info = cooler.Cooler(u).info
                a = str(info.get("genome-assembly", "unknown"))
                asm = 0 if a == "unknown" else (int(a[3:]) if a.startswith("asm") and a[3:].isdigit() else -1)
                md = info.get("metadata", {})
                meta = 0 if md == {} else (int(md["content"]) if isinstance(md, dict) and set(md) == {"content"} else -1)
            except Exception:
                content = -3
        raised = ""
        try:
            ic = bool(cooler.fileops.is_cooler(u))
        except Exception as ex:
            ic, raised = False, type(ex).__name__
        out.append({"p": p, "content": content, "is_cooler": ic, "raised": raised, "asm": asm, "meta": meta})
    lraised = ""
    try:
        if via_cli:
            from click.testing import CliRunner
            from cooler.cli import cli
            res = CliRunner().invoke(cli, ["ls", fp])
            if res.exit_code != 0:
                raise res.exception if isinstance(res.exception, Exception) else RuntimeError(res.output[-200:])
            names = [ln.split("::", 1)[1] for ln in res.output.split("\n") if "::" in ln]
        else:
            names = cooler.fileops.list_coolers(fp)
        lst = [[x for x in s.split("/") if x] for s in names]
        lst = [q for q in lst if len(q) <= 2]
    except Exception as ex:
        lst, lraised = [], type(ex).__name__
    return {"exists": True, "paths": out, "listing": lst, "listing_raised": lraised}


def _close_leaked_ids():
    """After a REFUSED hard link to an object behind an external link ('interfile hard links are not allowed'), h5py / HDF5
    leaves the identifier of that object - which belongs to the other file - open although no Python object refers to it;
    the other file then cannot be reopened for writing or truncated in this process.  Every operation of a history starts
    from a clean library state, as a fresh `cooler cp|mv|ln` process would: whatever is still open after a garbage
    collection is closed here and counted."""
    import h5py
    kinds = h5py.h5f.OBJ_FILE | h5py.h5f.OBJ_GROUP | h5py.h5f.OBJ_DATASET | h5py.h5f.OBJ_ATTR
    n = 0
    for i in h5py.h5f.get_obj_ids(h5py.h5f.OBJ_ALL, kinds):
        try:
            while i.valid:
                h5py.h5i.dec_ref(i)
            n += 1
        except Exception:
            pass
    return n


@driver("st.history")
def st_history(case, ctx):
    import cooler
    d = ctx.subdir()
    paths = case["paths"]
    steps = []
    leaked = 0
    SPLIT["on"] = bool(case.get("split_dirs"))
    for op in case["ops"]:
        ok, err, msg = True, "", ""
        # Objects reached through an external link belong to the OTHER file and stay open, after the file they were reached
        # from is closed, for as long as anything refers to them - e.g. a frame kept alive by the traceback of an earlier,
        # expected exception.  HDF5 then refuses to reopen that file for writing.  That is garbage-collection timing, not
        # behaviour of the operations: collect before every operation.
        gc.collect()
        leaked += _close_leaked_ids()
        try:
            if op["op"] == "create":
                cooler.create_cooler(uri(d, op["f"], op["p"], op.get("noslash", False)) if op["p"] or op.get("explicit_root")
                                     else fpath(d, op["f"]),
                                     gen.bins_frame(TABLE), gen.pixels_frame([[0, 1, op["c"]]]), ordered=True, mode=op["mode"],
                                     **({"assembly": f"asm{op['c']}", "metadata": {"content": op["c"]}} if op["c"] % 2 else {}))
            else:
                s = uri(d, op["sf"], op["sp"], op.get("noslash", False))
                t = uri(d, op["df"], op["dp"], op.get("noslash", False))
                if case.get("via") == "cli":
                    from click.testing import CliRunner
                    from cooler.cli import cli
                    args = [{"cp": "cp", "mv": "mv", "ln": "ln", "lns": "ln"}[op["op"]], s, t]
                    if op["op"] == "lns":
                        args.append("--soft")
                    if op["ow"]:
                        args.append("--overwrite")
                    res = CliRunner().invoke(cli, args)
                    if res.exit_code != 0:
                        raise res.exception if isinstance(res.exception, Exception) else RuntimeError(res.output[-200:])
                elif op["op"] == "cp":
                    cooler.fileops.cp(s, t, overwrite=op["ow"])
                elif op["op"] == "mv":
                    cooler.fileops.mv(s, t, overwrite=op["ow"])
                elif op["op"] == "ln":
                    cooler.fileops.ln(s, t, overwrite=op["ow"])
                else:
                    cooler.fileops.ln(s, t, soft=True, overwrite=op["ow"])
        except Exception as ex:
            ok, err, msg = False, type(ex).__name__, str(ex)[:160].replace('"', "'")
        gc.collect()
        leaked += _close_leaked_ids()          # ... and the files are read back from a clean library state, too
        steps.append({"ok": ok, "err": err, "msg": msg,
                      "f1": observe_file(fpath(d, "f1"), paths, case.get("via") == "cli"),
                      "f2": observe_file(fpath(d, "f2"), paths, case.get("via") == "cli")})
    return {"steps": steps, "leaked_ids_closed": leaked}


@driver("st.rootattrs")
def st_rootattrs(case, ctx):
    """The destination is the ROOT of an existing file that carries attributes of its own - written by another tool
    (h5py), or the root of a multi-resolution file made by zoomify_cooler - and a member that is not a cooler table."""
    import h5py
    import cooler
    d = ctx.subdir()
    table = gen.simple_table(4)
    bins = gen.bins_frame(table)
    c = case["c"]

    def mk(uri, val, assembly, mode="a"):
        cooler.create_cooler(uri, bins, gen.pixels_frame([[0, 1, val], [2, 2, val]]), ordered=True, assembly=assembly,
                             metadata={"c": val}, mode=mode)
    a = os.path.join(d, "a.cool")
    mk(a + "::/x", c, case["src_assembly"])
    b = os.path.join(d, "b.h5")
    if case["dest"] == "mcool":
        base = os.path.join(d, "base.cool")
        mk(base, 9, "old", mode="w")
        cooler.zoomify_cooler(base, b, [2 * cooler.Cooler(base).binsize], chunksize=100)
    else:
        with h5py.File(b, "w") as f:
            f.create_group("misc").attrs["k"] = "v"
    with h5py.File(b, "r+") as f:
        for k, v in case["foreign"]:
            f.attrs[k] = v
        member = "resolutions" if case["dest"] == "mcool" else "misc"

    def attrs_of(fp, grp):
        with h5py.File(fp, "r") as f:
            return sorted([str(k), str(project.attr(v))] for k, v in f[grp].attrs.items())
    before = attrs_of(b, "/")
    src = attrs_of(a, "/x")
    err = ""
    try:
        if case["op"] == "cp":
            if case.get("via") == "cli":
                from click.testing import CliRunner
                from cooler.cli import cli
                res = CliRunner().invoke(cli, ["cp", a + "::/x", b + "::/"])
                if res.exit_code != 0:
                    raise res.exception if isinstance(res.exception, Exception) else RuntimeError(res.output[-200:])
            else:
                cooler.fileops.cp(a + "::/x", b + "::/")
        else:
            mk(b, c, case["assembly"], mode="a" if case["op"] == "create_a" else "w")
    except Exception as ex:
        err = type(ex).__name__
    _close_leaked_ids()
    after = attrs_of(b, "/")
    with h5py.File(b, "r") as f:
        member_after = member in f
    o = {"err": err, "before": before, "after": after, "src": src, "foreign_member_after": bool(member_after),
         "is_cooler": bool(cooler.fileops.is_cooler(b + "::/")), "dst_info": "", "src_info": "", "dst_content": -1,
         "src_content": c, "dst_assembly": "", "dst_meta_c": -1}
    if o["is_cooler"]:
        cd, cs = cooler.Cooler(b + "::/"), cooler.Cooler(a + "::/x")
        # the destination's info restricted to the entries the source has (the root may carry unrelated attributes of its own)
        o["dst_info"], o["src_info"] = (project.canon_json({k: project.attr(v) for k, v in x.info.items() if k in cs.info})
                                        for x in (cd, cs))
        o["dst_content"] = project.to_int(cd.pixels()[:]["count"].iloc[0])
        o["dst_assembly"] = str(cd.info.get("genome-assembly", ""))
        md = cd.info.get("metadata", {})
        o["dst_meta_c"] = project.to_int(md.get("c", -1)) if isinstance(md, dict) else -1
    return o
