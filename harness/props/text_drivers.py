"""Drivers for text export / import (C16)."""
from __future__ import annotations

import os

import numpy as np

from .. import gen, project
from ..core import driver
from .ingest_drivers import UNKNOWN, _bins_arg, _cli, _result, cname
from .rq_drivers import SC

NAMES = gen.CHROMNAMES


def _run_cli(args):
    from click.testing import CliRunner
    from cooler.cli import cli
    res = CliRunner().invoke(cli, args)
    if res.exit_code != 0:
        ex = res.exception
        return (type(ex).__name__ if isinstance(ex, Exception) else f"exit{res.exit_code}"), res.output
    return "", res.output


def _region_text(r):
    return f"{NAMES[r[0]]}:{r[1]}-{r[2]}"


def _scaled(tok):
    if tok == "" or tok.lower() == "nan":
        return -1
    y = float(tok) * (1 << SC)
    if y != int(y):
        raise ValueError(f"balanced value {tok!r} is not an exact multiple of 2^-{SC}")
    return int(y)


@driver("tx.dump")
def tx_dump(case, ctx):
    import h5py
    path = gen.place(ctx.path(), case["table"], case["px"], case["mode"], at=case.get("at"),     # a URI when case["at"] is set
                     prior=case.get("prior", False))
    if case["wexp"]:
        fp, grp = gen.split_uri(path)
        with h5py.File(fp, "r+") as f:
            f[grp]["bins"].create_dataset("weight", data=np.array([float("nan") if e < 0 else float(2 ** e) for e in case["wexp"]]))
            if grp != "/":
                f["bins"].create_dataset("weight", data=np.array([4.0 for _ in case["wexp"]]))      # the decoy's weights
    if case.get("legacy_attrs") and case["mode"] == "symm":
        # a file as older versions of the format wrote it: no storage-mode attribute (read as symmetric-upper), format-version 2
        fp, grp = gen.split_uri(path)
        with h5py.File(fp, "r+") as f:
            del f[grp].attrs["storage-mode"]
            f[grp].attrs["format-version"] = 2
    o = case["o"]
    args = ["dump", path, "--float-format", ".17g", "-k", str(case["chunk"])]
    if o["hasr"]:
        args += ["-r", _region_text(o["r"])]
    if o["hasr2"]:
        args += ["-r2", _region_text(o["r2"])]
    if o["fill"]:
        args.append("--fill-lower")
    if o["join"]:
        args.append("--join")
    if o["balanced"]:
        args.append("--balanced")
    if o["obids"]:
        args.append("--one-based-ids")
    if o["obstarts"]:
        args.append("--one-based-starts")
    if case["header"]:
        args.append("--header")
    outfile = None
    if case.get("out") in ("fresh", "existing"):
        # -o FILE: a new file, or one that already holds the (longer) output of an earlier run
        outfile = os.path.join(ctx.subdir(), "dump.txt")
        if case["out"] == "existing":
            with open(outfile, "w") as f:
                f.write("stale\tline\tof\tan\tearlier\trun\n" * 50)
        args += ["-o", outfile]
    err, out = _run_cli(args)
    if err:
        return {"err": err, "msg": out[-200:]}
    if outfile:
        with open(outfile) as f:
            out = f.read()
    lines = [ln for ln in out.split("\n") if ln != ""]
    header = []
    if case["header"] and lines:
        header = lines[0].split("\t")
        lines = lines[1:]
    rows = []
    for ln in lines:
        f = ln.split("\t")
        if o["join"]:
            row = [NAMES.index(f[0]), int(f[1]), int(f[2]), NAMES.index(f[3]), int(f[4]), int(f[5]), int(f[6])]
            rest = f[7:]
        else:
            row = [int(f[0]), int(f[1]), int(f[2])]
            rest = f[3:]
        if o["balanced"]:
            row.append(_scaled(rest[0]) if rest else -1)
        rows.append(row)
    return {"err": "", "rows": rows, "header": header}


@driver("tx.layout")
def tx_layout(case, ctx):
    """Files whose columns are laid out in any (also non-monotone) order: cload pairs, load -f coo|bg2 with --field."""
    d = ctx.subdir()
    table = case["table"]
    out = os.path.join(d, "out.cool")
    ncols = case["ncols"]
    tril = case["tril"]
    txt = os.path.join(d, "in.txt")
    lay = case["layout"]                      # name -> 0-based column
    kind = case["kind"]
    with open(txt, "w") as f:
        if kind == "pairs":
            for k, r in enumerate(case["recs"]):
                cells = [f"pad{k}"] * ncols
                cells[lay["chrom1"]], cells[lay["pos1"]] = cname(r[0]), str(r[1])
                cells[lay["chrom2"]], cells[lay["pos2"]] = cname(r[2]), str(r[3])
                if "x" in lay:
                    cells[lay["x"]] = str(case["xvals"][k])
                f.write("\t".join(cells) + "\n")
        elif kind == "coo":
            for k, p in enumerate(case["px"]):
                cells = ["0"] * ncols
                cells[lay.get("bin1_id", 0)], cells[lay.get("bin2_id", 1)] = str(p[0]), str(p[1])
                cells[lay["count"]] = str(p[2])
                if "x" in lay:
                    cells[lay["x"]] = str(case["xvals"][k])
                f.write("\t".join(cells) + "\n")
    if kind == "pairs":
        args = ["cload", "pairs", _bins_arg(d, table), txt, out, "-c1", str(lay["chrom1"] + 1), "-p1", str(lay["pos1"] + 1),
                "-c2", str(lay["chrom2"] + 1), "-p2", str(lay["pos2"] + 1), "--temp-dir", d, "--chunksize", str(case["chunk"])]
        if not case["one_based"]:
            args.append("--zero-based")
        if "x" in lay:
            args += ["--field", f"x={lay['x'] + 1}:dtype=int64"]
    else:
        args = ["load", "-f", "coo", _bins_arg(d, table), txt, out, "--temp-dir", d, "--chunksize", str(case["chunk"]),
                "--field", f"count={lay['count'] + 1}"]
        for nm in ("bin1_id", "bin2_id"):
            if nm in lay:
                args += ["--field", f"{nm}={lay[nm] + 1}"]
        if "x" in lay:
            args += ["--field", f"x={lay['x'] + 1}:dtype=int64"]
        if case["one_based"]:
            args.append("--one-based")
    if tril == "drop":
        args += ["--input-copy-status", "duplex"]
    if tril == "none":
        args.append("--no-symmetric-upper")
    err = _cli(args)
    if err:
        return {"err": err}
    import cooler
    c = cooler.Cooler(out)
    obs = {"err": "", "px": _result(out)}
    if "x" in lay:
        obs["extra"] = project.pixel_rows(c.pixels()[:], ["bin1_id", "bin2_id", "x"])
    return obs


@driver("tx.roundtrip")
def tx_roundtrip(case, ctx):
    """dump -> load with the same bin table."""
    import cooler
    d = ctx.subdir()
    table, mode = case["table"], case["mode"]
    # chromosome names: the usual a, b, c or names whose natural / lexical order is not the order of the table
    names = ["c2", "c10", "scaffold_7", "c1", "chrUn_x"] if case.get("names") == "unsorted" else \
        ["2", "10", "1", "3", "7"] if case.get("names") == "numeric" else gen.CHROMNAMES      # purely numeric names (Ensembl style)
    src = gen.place(os.path.join(d, "src.cool"), table, case["px"], mode, at=case.get("at"), names=names)
    fmt = case["fmt"]
    dump_args = ["dump", src, "-k", str(case["chunk"])] + (["--join"] if fmt == "bg2" else [])
    if case["one_based"] and fmt == "coo":
        dump_args.append("--one-based-ids")
    if case["one_based"] and fmt == "bg2":
        dump_args.append("--one-based-starts")
    err, out = _run_cli(dump_args)
    if err:
        return {"err": "dump:" + err}
    txt = os.path.join(d, "dumped.txt")
    with open(txt, "w") as f:
        f.write(out)
    dst = os.path.join(d, "dst.cool") + ("::" + case["at"] if case.get("at") else "")
    if case.get("bins_spec") == "chromsizes":
        # BINS given as <chromsizes file>:<bin size> (fixed-width tables only): the file lists the chromosomes in table order
        cs = os.path.join(d, "chrom.sizes")
        with open(cs, "w") as f:
            for k, ln in enumerate(gen.chrom_lens(table)):
                f.write(f"{names[k]}\t{ln}\n")
        bins_arg = f"{cs}:{case['binsize']}"
    else:
        bins_arg = os.path.join(d, "bins.bed")
        gen.bins_frame(table, names).to_csv(bins_arg, sep="\t", header=False, index=False)
    args = ["load", "-f", fmt, bins_arg, txt, dst, "--temp-dir", d, "--chunksize", str(case["chunk2"]),
            "--max-merge", str(case.get("max_merge", 200))]
    if mode != "symm":
        args.append("--no-symmetric-upper")
    if case["one_based"]:
        args.append("--one-based")
    err = _cli(args)
    if err:
        return {"err": "load:" + err}
    c = cooler.Cooler(dst)
    b = c.bins()[["chrom", "start", "end"]][:]
    return {"err": "", "px": _result(dst), "raw": project.raw_uri(dst), "mode": str(c.storage_mode),
            "table": [[names.index(str(ch)), int(s), int(e)] for ch, s, e in zip(b["chrom"], b["start"], b["end"])]}
