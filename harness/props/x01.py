"""X01 - (growth of the specification, not one of the listed properties) in-place mutation of a collection: append() of
columns, balancing with storage through the API and the CLI (--name/--force/--check/--stdout), rename_chroms; live vs fresh
Cooler objects.  Specification: spec/Session.tla; conformance: spec/SessionTrace.tla."""
from __future__ import annotations

import random

from .. import gen
from ..core import Run, run_cases
from . import session_drivers  # noqa: F401
from .c10 import circulant

TRACE = "SessionTrace"
COLS = session_drivers.COLS


def rand_op(rng):
    k = rng.random()
    if k < 0.4:
        return {"op": "append", "tbl": rng.choice(["bins", "bins", "pixels"]), "c": rng.choice(COLS), "t": rng.choice([1, 2, 3]),
                "force": rng.random() < 0.4, "form": rng.choice(["dict", "frame"])}
    if k < 0.55:
        return {"op": "balance_api", "c": rng.choice(COLS), "on": rng.choice(["live", "fresh"])}
    if k < 0.85:
        return {"op": "balance_cli", "c": rng.choice(COLS), "force": rng.random() < 0.4, "check": rng.random() < 0.25,
                "stdout": rng.random() < 0.2}
    return {"op": "rename", "k": rng.choice([1, 2]), "on": rng.choice(["live", "fresh"])}


def cases(tier, seed):
    rng = random.Random(seed)
    table = gen.binnify([4, 3, 2], 1)
    px = circulant(9, [(2, 4), (3, 2)])
    # systematic: every operation kind after every single-operation prefix
    singles = [{"op": "append", "tbl": "bins", "c": "weight", "t": 2, "force": False, "form": "dict"},
               {"op": "append", "tbl": "pixels", "c": "x", "t": 1, "force": False, "form": "frame"},
               {"op": "balance_api", "c": "weight", "on": "live"},
               {"op": "balance_cli", "c": "weight", "force": False, "check": False, "stdout": False},
               {"op": "rename", "k": 2, "on": "live"}]
    follow = singles + [{"op": "append", "tbl": "bins", "c": "weight", "t": 3, "force": True, "form": "dict"},
                        {"op": "balance_cli", "c": "weight", "force": True, "check": False, "stdout": False},
                        {"op": "balance_cli", "c": "weight", "force": False, "check": True, "stdout": False},
                        {"op": "balance_cli", "c": "weight", "force": False, "check": False, "stdout": True},
                        {"op": "balance_cli", "c": "KR", "force": False, "check": True, "stdout": False}]
    k = 0
    for a in [None] + singles:
        for b in follow:
            ops = ([a] if a else []) + [b]
            yield "ss.history", {"table": table, "px": px, "ops": ops, "warm": k % 2 == 0,
                                 **({"at": "/resolutions/1"} if k % 3 == 1 else {})}
            k += 1
    for h in range(60 if tier == "quick" else 1500):
        ops = [rand_op(rng) for _ in range(rng.randint(2, 6))]
        yield "ss.history", {"table": table, "px": px, "ops": ops, "warm": h % 2 == 0,
                             **({"at": ["/resolutions/1", "/a/b"][h % 2]} if h % 3 == 1 else {})}


def run(tier, seed, only_case=None):
    r = Run("X01", tier, seed, replay=only_case is not None)
    r.rule = ("one case = a history of 1-6 operations (append of a constant column to bins / pixels with and without force, dict or "
              "frame data; balance_cooler(store=True, store_name=...) on the live or a fresh object; `cooler balance --name` with "
              "--force / --check / --stdout; rename_chroms on the live or a fresh object) on one real collection at the file root "
              "or in a nested group; after every operation a LIVE Cooler object opened before the history and a FRESH one are "
              "projected (column tags of both tables, chromosome names, which balanced reads answer, pixel data) and TLC steps "
              "Session.tla along the history. non-trivial = >= 2 operations.")
    r.assumptions = ["not one of the listed properties: growth of the specification"]
    if only_case is None:
        r.model_check("Session", "MC_Session.cfg")
        cs = cases(tier, seed)
    else:
        cs = [only_case]
    for drv, case, obs in run_cases(cs, chunk=4):
        r.record(TRACE, drv, case, obs, len(case["ops"]) >= 2)
    r.exhaustive = False
    r.validate(TRACE)
    return r.finish()
