"""X02 - (growth of the specification, not one of the listed properties) a multi-resolution file as a stateful object:
zoomify_cooler and the legacy quad-tree layout built step by step, refused, or killed by a process death before every file
open of the writers; what is left is a prefix of the steps, recognised as multi-resolution only when complete, and every
finished level is the direct coarsening of its base.  Specification: spec/Zoom.tla, ZoomOps.tla; conformance: ZoomTrace."""
from __future__ import annotations

import random

from .. import gen
from ..core import Run, run_cases
from . import zoom_drivers  # noqa: F401

TRACE = "ZoomTrace"


def cases(tier, seed):
    rng = random.Random(seed)
    setups = [(gen.binnify([10, 7], 1), 1), (gen.binnify([16, 6], 2), 2), (gen.binnify([12], 1), 1), (gen.binnify([9, 9, 3], 3), 3)]
    ladders = [[2, 4, 8], [8, 4, 2], [2, 3, 6, 12], [6], [2, 6, 4], [3, 9], [2, 5], [4, 6], [1, 2, 4], [1], [2, 4, 7], [5, 3]]
    n_std = 120 if tier == "quick" else 2500
    for h in range(n_std):
        F = gen.feat(301, h)
        table, b0 = setups[F("setup", len(setups))]
        mode = "symm" if F("mode", 3) else "square"
        px = gen.random_store(rng, len(table), mode, maxval=4) if F("nonempty", 8) else []
        mult = ladders[F("ladder", len(ladders))] if F("fixed", 4) else sorted(rng.sample(range(1, 13), rng.randint(1, 4)))
        base_mult = [[1], [1], [1, 2], [2], [2, 3], [1, 3]][F("bases", 6)]
        longest = max(e for (_, _, e) in table)
        if any(m * b0 >= longest for m in base_mult):
            base_mult = [1]             # a base whose chromosomes all have one bin has no inferable bin size (it is filed as 1)
        kill = 0 if F("nokill", 3) == 0 else rng.randint(1, 8 + 6 * len(mult))
        yield "zm.steps", {"layout": "std", "table": table, "binsize": b0, "mode": mode, "px": px,
                           "resolutions": [m * b0 for m in mult], "base_res": [m * b0 for m in base_mult],
                           "tile": 0, "kill": kill, "chunk": rng.choice([1, 3, 10 ** 6]), "via": "api"}
    n_leg = 60 if tier == "quick" else 1200
    for h in range(n_leg):
        F = gen.feat(302, h)
        table, b0 = setups[F("setup", len(setups))]
        tile = [1, 2, 4, 64][F("tile", 4)]
        if F("real", 12) == 5:
            table, b0, tile = gen.binnify([300, 270], 1), 1, 256          # the real tile size: 570 bins -> 3 tiles -> depth 2
        mode = "symm" if F("mode", 3) else "square"
        px = gen.random_store(rng, len(table), mode, maxval=4, density=0.5 if len(table) < 100 else 0.0005) if F("nonempty", 8) else []
        kill = 0 if F("nokill", 3) == 0 else rng.randint(1, 40)
        yield "zm.steps", {"layout": "legacy", "table": table, "binsize": b0, "mode": mode, "px": px, "resolutions": [],
                           "base_res": [], "tile": tile, "kill": kill, "chunk": rng.choice([1, 3, 10 ** 6]),
                           "via": "cli" if F("cli", 3) == 1 else "api"}
    for h in range(300 if tier == "quick" else 5000):
        lens = [rng.randint(1, 10 ** rng.randint(1, 6)) for _ in range(rng.randint(1, 4))]
        tile = rng.choice([1, 2, 4, 256, 256, 256])
        b = rng.choice([1, 2, 5, 10, 100, 1000])
        if h % 3 == 0:                                      # totals at and around exact powers of two tiles
            n = rng.randint(0, 9)
            lens = [tile * b * 2 ** n + rng.choice([-1, 0, 1])]
            if lens[0] < 1:
                lens = [1]
        yield "zm.depth", {"lens": lens, "total": sum(lens), "binsize": b, "tile": tile}


def run(tier, seed, only_case=None):
    r = Run("X02", tier, seed, replay=only_case is not None)
    r.rule = ("zm.steps: zoomify_cooler (standard layout: 1-2 base coolers, ladders in any order, mixed predecessors, non-derivable "
              "members) and legacy_zoomify / `cooler zoomify --legacy` (tile sizes 1, 2, 4, 64 and the real 256) on small bases, "
              "run in a forked child that dies (os._exit) right before the j-th file open of the writers (j random, or never); "
              "the file left behind is projected level by level (absent / partial / done + content), with the root mark, the "
              "recognition test and the listing, and judged by the invariants of Zoom.tla. zm.depth: get_quadtree_depth on "
              "random genome sizes, incl. sizes at and next to exact powers of two tiles. non-trivial = the run was killed or "
              "refused, or it is a depth case.")
    r.assumptions = ["not one of the listed properties: growth of the specification (around C09 / C13)",
                     "process deaths happen where the output file is closed (before a file open of the writers)"]
    if only_case is None:
        r.model_check("Zoom", "MC_Zoom.cfg" if tier == "quick" else "MC_Zoom_thorough.cfg", timeout=3000)
        r.expect_refuted("Zoom", "MC_Zoom_markearly.cfg", "RecognisedOnlyWhenComplete")
        cs = cases(tier, seed)
    else:
        cs = [only_case]
    killed = 0
    for drv, case, obs in run_cases(cs, chunk=8):
        nt = drv == "zm.depth" or obs.get("outcome") in ("killed", "error")
        killed += 1 if obs.get("outcome") == "killed" else 0
        r.record(TRACE, drv, case, obs, nt)
    r.extra["process_deaths_injected"] = killed
    r.exhaustive = False
    r.validate(TRACE)
    return r.finish()
