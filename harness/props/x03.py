"""X03 - (growth of the specification, not one of the listed properties) natural ordering of sequence names (argnatsort,
natsorted) and the selection / ordering of contigs by read_chromsizes.  Specification: spec/NatSort.tla; conformance: NatSortTrace."""
from __future__ import annotations

import itertools
import random

from ..core import Run, run_cases
from . import natsort_drivers  # noqa: F401
from .natsort_drivers import cps

TRACE = "NatSortTrace"
UCSC = ["chr1", "chr2", "chr3", "chr10", "chr11", "chr19", "chr20", "chr21", "chr22", "chrX", "chrY", "chrM", "chr1_gl000191_random",
        "chr17_ctg5_hap1", "chrUn_gl000211", "chr4_gl000193_random", "chr6_apd_hap1", "chr01", "chr001", "chr9", "chr09", "chr100",
        "scaffold_12", "scaffold_2", "2L", "2R", "3L", "X", "chr2L", "chr2R", "chr3_random", "chrEBV", "chr1_KI270706v1_random"]


def cases(tier, seed):
    rng = random.Random(seed)
    # every list of <= 3 names over a small alphabet (the scope TLC model-checks), sampled
    alpha = "c_012"
    pool = ["".join(t) for n in (1, 2, 3) for t in itertools.product(alpha, repeat=n)]
    for _ in range(600 if tier == "quick" else 12000):
        names = [rng.choice(pool) for _ in range(rng.randint(0, 4))]
        yield "ns.argsort", {"names": [cps(n) for n in names]}
    for _ in range(300 if tier == "quick" else 6000):
        names = rng.sample(UCSC, rng.randint(1, 12))
        yield "ns.argsort", {"names": [cps(n) for n in names]}
    for h in range(300 if tier == "quick" else 6000):
        names = rng.sample(UCSC, rng.randint(1, 14))
        yield "ns.chromsizes", {"names": [cps(n) for n in names], "lengths": [rng.randint(1, 10 ** 8) for _ in names],
                                "mode": ["default", "all", "prefix"][h % 3]}


def run(tier, seed, only_case=None):
    r = Run("X03", tier, seed, replay=only_case is not None)
    r.rule = ("ns.argsort: argnatsort / natsorted on lists of 0-4 names over the alphabet of the model-checked scope and on samples "
              "of UCSC-style names (numbered, lettered, _random / _hap contigs, leading zeros, scaffolds); ns.chromsizes: "
              "read_chromsizes on a chromsizes file with the default patterns, all_names, or one prefix pattern. The order is "
              "judged only where natural order is defined (token kinds agree position-wise). non-trivial = >= 2 names.")
    r.assumptions = ["not one of the listed properties: growth of the specification"]
    if only_case is None:
        r.model_check("MC_NatSort", "MC_NatSort.cfg" if tier == "quick" else "MC_NatSort_thorough.cfg", timeout=3000)
        r.expect_refuted("MC_NatSort", "MC_NatSort_pinned.cfg", "SortedPinned")
        cs = cases(tier, seed)
    else:
        cs = [only_case]
    for drv, case, obs in run_cases(cs, chunk=64):
        r.record(TRACE, drv, case, obs, len(case["names"]) >= 2)
    r.exhaustive = False
    r.validate(TRACE)
    return r.finish()
