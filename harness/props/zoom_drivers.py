"""Drivers for the construction of multi-resolution files as a stateful object (spec/Zoom.tla): zoomify_cooler and the
legacy quad-tree layout, completed, refused or KILLED before the j-th file open of the writers."""
from __future__ import annotations

import os

import numpy as np

from .. import gen, project
from ..core import driver
from .coarsen_drivers import _mk, _px_of, _table_of
from .create_drivers import _H5Proxy, in_child


def _die_at(j, save):
    """Process death right before the j-th file open of zoomify / create (one counter for both modules); j = 0: never."""
    import h5py
    import cooler._reduce as R
    import cooler.create._create as cc
    count = {"n": 0}

    def on_open():
        count["n"] += 1
        if count["n"] == j:
            save()
            os._exit(9)
    proxy = _H5Proxy(h5py, on_open)
    cc.h5py = proxy
    R.h5py = proxy
    return count


def _observe(out, layout):
    import h5py
    import cooler
    o = {"levels": [], "mark": False, "maxzoom": -1, "multires": False, "listing": []}
    if not os.path.exists(out):
        return o
    o["multires"] = bool(cooler.fileops.is_multires_file(out))
    o["listing"] = [[x for x in s.split("/") if x] for s in cooler.fileops.list_coolers(out)]
    with h5py.File(out, "r") as f:
        at = dict(f.attrs)
        if layout == "legacy":
            names = [(int(k), "/" + k) for k in f.keys() if k.isdigit()]
            o["mark"] = "max-zoom" in at
            o["maxzoom"] = project.to_int(at.get("max-zoom", -1))
        else:
            names = [(int(k), "/resolutions/" + k) for k in (f["resolutions"].keys() if "resolutions" in f else [])]
            o["mark"] = project.attr(at.get("format", "")) == "HDF5::MCOOL"
    for name, path in sorted(names):
        uri = out + "::" + path
        rec = {"name": name, "state": "partial", "table": [], "px": [], "attr_binsize": project.to_int(at.get(str(name), -1))
               if layout == "legacy" else -1}
        if cooler.fileops.is_cooler(uri):
            c = cooler.Cooler(uri)
            rec.update({"state": "done", "table": _table_of(c), "px": _px_of(c)})
        o["levels"].append(rec)
    return o


@driver("zm.steps", timeout=300)
def zm_steps(case, ctx):
    import cooler
    d = ctx.subdir()
    t, mode, b0 = case["table"], case["mode"], case["binsize"]
    base = _mk(os.path.join(d, "base.cool"), t, case["px"], mode)
    out = os.path.join(d, "out.mcool")
    bases = []
    for r in case.get("base_res", []):
        if r == b0:
            bases.append(base)
        else:
            pth = os.path.join(d, f"base{r}.cool")
            cooler.coarsen_cooler(base, pth, r // b0, chunksize=10 ** 6)
            bases.append(pth)

    def body(save):
        import cooler._reduce as R
        _die_at(case["kill"], lambda: save({}))
        try:
            if case["layout"] == "legacy":
                R.HIGLASS_TILE_DIM = case["tile"]
                if case.get("via") == "cli":
                    from click.testing import CliRunner
                    from cooler.cli import cli
                    res = CliRunner().invoke(cli, ["zoomify", base, "--legacy", "-o", out, "-c", str(case["chunk"])])
                    if res.exit_code != 0:
                        raise res.exception if isinstance(res.exception, Exception) else RuntimeError(res.output[-200:])
                else:
                    R.legacy_zoomify(base, out, 1, case["chunk"])
            else:
                cooler.zoomify_cooler(bases if len(bases) > 1 else bases[0], out, list(case["resolutions"]),
                                      chunksize=case["chunk"])
            return {"outcome": "ok", "err": ""}
        except Exception as ex:
            return {"outcome": "error", "err": type(ex).__name__}
    status, got = in_child(body, os.path.join(d, "side.json"))
    o = _observe(out, case["layout"])
    o.update({"outcome": "killed", "err": ""} if status == "killed" else got)
    return o


@driver("zm.depth")
def zm_depth(case, ctx):
    import pandas as pd
    from cooler._reduce import get_quadtree_depth
    lens = case["lens"]
    n = get_quadtree_depth(pd.Series(lens, index=[f"c{k}" for k in range(len(lens))]), case["binsize"], case["tile"])
    return {"n": project.to_int(n)}
