"""./check --selftest: syntax-check every specification module and demonstrate the binding
(a corrupted observation and a removed observation must both be rejected by TLC)."""
from __future__ import annotations

import glob
import json
import os
import shutil
import tempfile
from concurrent.futures import ThreadPoolExecutor

from . import core, tlc


def main():
    mods = sorted(os.path.basename(p)[:-4] for p in glob.glob(os.path.join(tlc.SPEC_DIR, "*.tla")))
    with ThreadPoolExecutor(8) as ex:
        list(ex.map(tlc.sany, mods))
    print(f"selftest: SANY accepts {len(mods)} modules")
    # binding demonstration on the range-query trace specification
    from .props import rq_drivers  # noqa: F401
    case = {"n": 3, "mode": "symm", "px": [[0, 1, 2], [1, 1, 1], [1, 2, 1]], "chunk": 1}
    ctx = core.Ctx()
    d = tempfile.mkdtemp(prefix="cvf_self_")
    try:
        obs = core.DRIVERS["rq.engine"](case, ctx)
        good = {"id": 0, "drv": "rq.engine", "case": case, "obs": obs}
        bad = json.loads(json.dumps(good)); bad["id"] = 1
        q = next(q for q in bad["obs"]["q"] if q["fill"])
        q["fill"][0][2] += 1                      # corrupt one recorded value
        bad2 = json.loads(json.dumps(good)); bad2["id"] = 2
        q = next(q for q in bad2["obs"]["q"] if len(q["fill"]) > 1)
        q["fill"].pop()                           # drop one recorded element
        path = os.path.join(d, "t.ndjson")
        with open(path, "w") as f:
            for e in (good, bad, bad2):
                f.write(json.dumps(e) + "\n")
        v = tlc.validate_traces("RangeQueryTrace", "RangeQueryTrace.cfg", [path])
        ids = sorted(i for i, _ in v.rejects)
        if v.accepted != 1 or ids != [1, 2]:
            raise tlc.MachineryError(f"binding demonstration failed: accepted={v.accepted} rejects={v.rejects}")
        print("selftest: binding demonstrated (untouched event accepted; corrupted and truncated events rejected:",
              v.rejects, ")")
        # the same for a HISTORY with a crash point: a creation killed (process death) before its third file open; the recorded
        # wreck is accepted, the same record with the destination's format attribute set (= "recognised after a failed
        # creation") and with a neighbour's pixels changed are rejected
        from .props import create_drivers  # noqa: F401
        paths = [[], ["a"], ["a", "n"], ["b"]]
        okf = {"kind": "none", "at": 0}
        calls = [{"dest": ["b"], "mode": "a", "n": 3, "symm": True, "chunks": [[[0, 1, 5]]], "fault": okf, "noslash": False, "explicit_root": True},
                 {"dest": ["a"], "mode": "a", "n": 3, "symm": True, "chunks": [[[0, 0, 1]], [[1, 2, 2]]], "fault": {"kind": "kill", "at": 4},
                  "noslash": False, "explicit_root": True}]
        hcase = {"paths": paths, "calls": calls}
        hobs = core.DRIVERS["cr.steps"](hcase, ctx)
        g0 = {"id": 0, "drv": "cr.steps", "case": hcase, "obs": hobs}
        b1 = json.loads(json.dumps(g0)); b1["id"] = 1
        end = b1["obs"]["calls"][1]["points"][-1]
        next(nd for nd in end["file"]["nodes"] if nd["path"] == ["a"])["fmt"] = True
        b2 = json.loads(json.dumps(g0)); b2["id"] = 2
        end = b2["obs"]["calls"][1]["points"][-1]
        next(nd for nd in end["file"]["nodes"] if nd["path"] == ["b"])["px"] = [[0, 1, 6]]
        path2 = os.path.join(d, "h.ndjson")
        with open(path2, "w") as f:
            for e in (g0, b1, b2):
                f.write(json.dumps(e) + "\n")
        v2 = tlc.validate_traces("CreateTrace", "CreateTrace.cfg", [path2])
        ids2 = sorted(i for i, _ in v2.rejects)
        if hobs["calls"][1]["points"][-1].get("outcome") != "killed" or v2.accepted != 1 or ids2 != [1, 2]:
            raise tlc.MachineryError(f"binding demonstration (history with a process death) failed: accepted={v2.accepted} "
                                     f"rejects={v2.rejects}")
        print("selftest: history binding demonstrated (killed creation accepted; forged recognition and a changed neighbour "
              "rejected:", v2.rejects, ")")
    finally:
        ctx.cleanup()
        shutil.rmtree(d, ignore_errors=True)
    return 0
