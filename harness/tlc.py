"""Running TLC: bounded model checking of the specification and batch trace validation.

All judgements in this framework are made by TLC; this module only starts it and reads back
its verdicts.  Exit-code discipline: a TLC run that cannot be interpreted (parse error, crash,
timeout, missing SUMMARY line) raises MachineryError, which ./check turns into exit status 2 -
never into a VIOLATION line.
"""
from __future__ import annotations

import json
import os
import re
import shutil
import subprocess
import tempfile
import time
from concurrent.futures import ThreadPoolExecutor
from dataclasses import dataclass, field

SPEC_DIR = os.path.join(os.path.dirname(os.path.dirname(os.path.abspath(__file__))), "spec")
JAR = "/opt/veriftools/tla/tla2tools.jar"
DEPS = "/opt/veriftools/tla/CommunityModules-deps.jar"


class MachineryError(Exception):
    pass


@dataclass
class MCResult:
    module: str
    cfg: str
    ok: bool
    states: int = 0          # distinct states
    generated: int = 0       # states generated (= transitions taken, incl. to known states)
    depth: int = 0
    wall_s: float = 0.0
    violated: str | None = None      # name of violated invariant / property
    counterexample: str = ""         # raw text of the error trace
    coverage: dict = field(default_factory=dict)  # action name -> (distinct, total)
    output: str = ""
    mode: str = "bfs"


def _java_cmd(extra_jvm=(), tmpdir=None):
    # TLC unpacks its standard modules into java.io.tmpdir (one tlc-* directory per run, not always removed): keep them in
    # the run's own metadir, which is deleted afterwards
    tmp = (f"-Djava.io.tmpdir={tmpdir}",) if tmpdir else ()
    return ["java", "-Xss16m", *tmp, *extra_jvm, "-cp", JAR + ":" + DEPS, "tlc2.TLC"]


_RE_STATES = re.compile(r"(\d+) states generated, (\d+) distinct states found")
_RE_DEPTH = re.compile(r"The depth of the complete state graph search is (\d+)")
_RE_INV = re.compile(r"Error: Invariant (\S+) is violated")
_RE_PROP = re.compile(r"Error: (?:Action|Temporal) propert(?:y|ies) (\S*)\s*(?:is|was|were) violated")
_RE_COV = re.compile(r"^<(\w+) line \d+, col \d+ to line \d+, col \d+ of module (\w+)>: (\d+):(\d+)", re.M)


def model_check(module: str, cfg: str, workers: int = 16, timeout: int = 1200,
                simulate: str | None = None, depth: int | None = None, seed: int | None = None,
                coverage: bool = True, env: dict | None = None, expect_ok: bool = True,
                jvm=()) -> MCResult:
    """Run TLC on spec/<module>.tla with spec/<cfg>.  simulate='num=1000' switches to random walks."""
    meta = tempfile.mkdtemp(prefix="tlcmeta_")
    cmd = _java_cmd(("-XX:+UseParallelGC", *jvm), tmpdir=meta) + ["-workers", str(workers), "-metadir", meta, "-noGenerateSpecTE"]
    if coverage and not simulate:
        cmd += ["-coverage", "1"]
    if simulate:
        cmd += ["-simulate", simulate]
        if depth:
            cmd += ["-depth", str(depth)]
    if seed is not None:
        cmd += ["-seed", str(seed)]
    cmd += ["-config", cfg, module + ".tla"]
    e = dict(os.environ)
    if env:
        e.update(env)
    t0 = time.time()
    try:
        p = subprocess.run(cmd, cwd=SPEC_DIR, env=e, capture_output=True, text=True, timeout=timeout)
    except subprocess.TimeoutExpired as ex:
        shutil.rmtree(meta, ignore_errors=True)
        raise MachineryError(f"TLC timeout after {timeout}s on {module}/{cfg}") from ex
    finally:
        shutil.rmtree(meta, ignore_errors=True)
    out = p.stdout + p.stderr
    r = MCResult(module=module, cfg=cfg, ok=False, output=out, wall_s=time.time() - t0,
                 mode="simulate" if simulate else "bfs")
    ms = _RE_STATES.findall(out)
    if ms:
        r.generated, r.states = int(ms[-1][0]), int(ms[-1][1])
    m = _RE_DEPTH.search(out)
    if m:
        r.depth = int(m.group(1))
    for m in _RE_COV.finditer(out):
        name = m.group(1)
        d, t = int(m.group(3)), int(m.group(4))
        old = r.coverage.get(name, (0, 0))
        r.coverage[name] = (old[0] + d, old[1] + t)
    mi = _RE_INV.search(out)
    mp = _RE_PROP.search(out)
    if mi or mp:
        r.violated = (mi or mp).group(1) or "property"
        i = out.find("Error:")
        r.counterexample = out[i:i + 6000]
        return r
    if "Deadlock reached" in out:
        r.violated = "Deadlock"
        i = out.find("Error:")
        r.counterexample = out[i:i + 6000]
        return r
    if "Model checking completed. No error has been found." in out or (
            simulate and p.returncode == 0 and "Error:" not in out):
        r.ok = True
        if simulate and not ms:
            m2 = re.search(r"(\d+) states checked", out)
            if m2:
                r.generated = r.states = int(m2.group(1))
        return r
    raise MachineryError(f"TLC run on {module}/{cfg} not interpretable (rc={p.returncode}):\n" + out[-3000:])


@dataclass
class TraceVerdict:
    accepted: int = 0
    rejected: int = 0
    events: int = 0
    rejects: list = field(default_factory=list)   # (id, [clauses])
    wall_s: float = 0.0
    states: int = 0
    clauses: int = 0


_RE_REJECT = re.compile(r'^"REJECT\|(-?\d+)\|([^"]*)"\s*$', re.M)
_RE_SUMMARY = re.compile(r'^"SUMMARY\|(\d+)\|(\d+)\|(\d+)\|(\d+)\|(\d+)"\s*$', re.M)


def _validate_one(module: str, cfg: str, trace_file: str, timeout: int, env: dict | None):
    meta = tempfile.mkdtemp(prefix="tlcmeta_")
    cmd = _java_cmd(("-Xmx3g", "-XX:+UseSerialGC", "-XX:TieredStopAtLevel=4"), tmpdir=meta) + ["-workers", "1", "-metadir", meta, "-noGenerateSpecTE",
                                    "-config", cfg, module + ".tla"]
    e = dict(os.environ)
    e["TRACE_FILE"] = trace_file
    if env:
        e.update(env)
    try:
        p = subprocess.run(cmd, cwd=SPEC_DIR, env=e, capture_output=True, text=True, timeout=timeout)
    except subprocess.TimeoutExpired as ex:
        raise MachineryError(f"TLC trace validation timeout after {timeout}s on {module} {trace_file}") from ex
    finally:
        shutil.rmtree(meta, ignore_errors=True)
    out = p.stdout + p.stderr
    ms = _RE_SUMMARY.search(out)
    if not ms or "Model checking completed. No error has been found." not in out:
        # find the line at which evaluation failed, if TLC printed a state
        lm = re.findall(r"\bl = (\d+)", out)
        where = f" (while consuming line {lm[-1]} of {trace_file})" if lm else ""
        i = out.find("Error:")
        head = out[i:i + 1200] if i >= 0 else out[-1500:]
        j = out.find("Error: The error occurred when TLC was evaluating")
        raise MachineryError(f"trace validation by {module} failed{where} rc={p.returncode}:\n" + head
                             + ("\n...\n" + out[j:j + 2500] if j >= 0 else ""))
    acc, rej, n, diam, ncl = (int(x) for x in ms.groups())
    if diam != n + 1 or acc + rej != n:
        raise MachineryError(f"trace validation by {module}: not all lines consumed ({acc}+{rej} of {n}, diameter {diam})")
    rejects = []
    for m in _RE_REJECT.finditer(out):
        clauses = [c for c in m.group(2).split(",") if c]
        rejects.append((int(m.group(1)), clauses))
    if len(rejects) != rej:
        raise MachineryError(f"trace validation by {module}: {rej} rejections counted, {len(rejects)} parsed\n" + out[-2000:])
    return acc, rej, n, rejects, ncl


def validate_traces(module: str, cfg: str, trace_files: list[str], timeout: int = 1500,
                    parallel: int = 16, env: dict | None = None) -> TraceVerdict:
    """Validate every ndjson file with the trace specification spec/<module>.tla (one TLC per file)."""
    t0 = time.time()
    v = TraceVerdict()
    files = [f for f in trace_files if os.path.getsize(f) > 0]
    if not files:
        return v
    with ThreadPoolExecutor(max_workers=max(1, min(parallel, len(files)))) as ex:
        for acc, rej, n, rejects, ncl in ex.map(lambda f: _validate_one(module, cfg, f, timeout, env), files):
            v.clauses += ncl
            v.accepted += acc
            v.rejected += rej
            v.events += n
            v.rejects += rejects
            v.states += n + 1
    v.wall_s = time.time() - t0
    return v


def sany(module: str) -> None:
    p = subprocess.run(["java", "-cp", JAR + ":" + DEPS, "tla2sany.SANY", module + ".tla"],
                       cwd=SPEC_DIR, capture_output=True, text=True, timeout=120)
    out = p.stdout + p.stderr
    if p.returncode != 0 or "*** Errors" in out or "Could not parse" in out or "Fatal" in out:
        raise MachineryError(f"SANY rejects {module}:\n" + out[-2000:])


class TraceWriter:
    """Writes events to N ndjson shards; refuses values TLC's JSON reader would mangle."""

    def __init__(self, directory: str, name: str, shards: int = 16):
        self.paths = [os.path.join(directory, f"{name}.{k}.ndjson") for k in range(shards)]
        self.files = [open(p, "w") for p in self.paths]
        self.n = 0

    def write(self, event: dict) -> None:
        check_jsonable(event)
        self.files[self.n % len(self.files)].write(json.dumps(event, separators=(",", ":")) + "\n")
        self.n += 1

    def close(self) -> list[str]:
        for f in self.files:
            f.close()
        return self.paths


def check_jsonable(x, path="$"):
    """TLC's Json module rejects null and silently truncates non-integers: never emit either."""
    if isinstance(x, bool) or isinstance(x, str):
        return
    if isinstance(x, int):
        if not (-2**31 < x < 2**31):
            raise MachineryError(f"integer out of TLC range at {path}: {x}")
        return
    if isinstance(x, (list, tuple)):
        for i, y in enumerate(x):
            check_jsonable(y, f"{path}[{i}]")
        return
    if isinstance(x, dict):
        for k, y in x.items():
            if not isinstance(k, str):
                raise MachineryError(f"non-string key at {path}: {k!r}")
            check_jsonable(y, f"{path}.{k}")
        return
    raise MachineryError(f"value not representable for TLC at {path}: {type(x).__name__} {x!r}")


def apalache_inductive(module: str, cinit: str, init: str, ind_init: str, inv: str, timeout: int = 900) -> dict:
    """Discharge an inductive invariant with Apalache (symbolic constants): Init => Inv (length 0) and
    IndInit /\\ Next => Inv' (length 1).  Returns timings; a counterexample or a tool failure is a machinery error (the
    invariant is a statement about the specification, not about the code)."""
    import shutil
    import tempfile
    import time
    out = {}
    for name, args in (("base", [f"--init={init}", "--length=0"]), ("step", [f"--init={ind_init}", "--length=1"])):
        d = tempfile.mkdtemp(prefix="apa_")
        t0 = time.time()
        try:
            p = subprocess.run(["apalache-mc", "check", f"--cinit={cinit}", f"--inv={inv}", f"--out-dir={d}", *args, module + ".tla"],
                               cwd=SPEC_DIR, capture_output=True, text=True, timeout=timeout)
        except (subprocess.TimeoutExpired, FileNotFoundError) as ex:
            raise MachineryError(f"apalache {name} case of {module}!{inv}: {ex}") from ex
        finally:
            shutil.rmtree(d, ignore_errors=True)
        if "EXITCODE: OK" not in p.stdout:
            raise MachineryError(f"apalache did not discharge the {name} case of {module}!{inv}:\n" + p.stdout[-1500:])
        out[name + "_s"] = round(time.time() - t0, 1)
    return out


def simulate_json(module: str, cfg: str, num: int, depth: int, seed: int, timeout: int = 1800) -> list:
    """spec -> code: run TLC's random simulation on spec/<module>.tla; an always-true invariant of the module prints finished
    behaviours as JSON strings (one per line).  Returns the distinct parsed behaviours."""
    import json
    meta = tempfile.mkdtemp(prefix="tlcsim_")
    try:
        cmd = _java_cmd(("-XX:+UseParallelGC",), tmpdir=meta) + ["-simulate", f"num={num}", "-depth", str(depth), "-workers", "1",
                                                                "-seed", str(seed), "-metadir", meta, "-noGenerateSpecTE",
                                                                "-config", cfg, module + ".tla"]
        p = subprocess.run(cmd, cwd=SPEC_DIR, capture_output=True, text=True, timeout=timeout)
    finally:
        shutil.rmtree(meta, ignore_errors=True)
    out = p.stdout
    if "Error:" in out:
        raise MachineryError(f"TLC simulation of {module} reported an error:\n" + out[out.find("Error:"):][:2000])
    hists = {}
    for line in out.splitlines():
        if line.startswith('"[') or line.startswith('"{'):
            h = json.loads(json.loads(line))
            hists[json.dumps(h, sort_keys=True)] = h
    if not hists:
        raise MachineryError(f"TLC simulation of {module} produced no behaviour:\n" + out[-1500:])
    return [hists[k] for k in sorted(hists)]
