-------------------------------- MODULE Balance --------------------------------
(* Matrix balancing (properties C10, C11): the parts that are decidable over      *)
(* integers.                                                                     *)
(*                                                                              *)
(*  (a) spans: how the pixel table is cut into chunks (np.arange(0, nnz + c, c),   *)
(*      slices clipped at nnz; per chromosome partition(plo, phi, c) in cis mode)  *)
(*      and that the clipped spans PARTITION [0, nnz);                            *)
(*  (b) the split-apply-combine schedule: one worker step per chunk in ANY order,  *)
(*      results folded in completion order (MC_Balance);                          *)
(*  (c) the discrete filter pipeline on integer data: zero the first d diagonals,  *)
(*      zero trans (cis-only) pixels, marginal = bincount(bin1) + bincount(bin2),  *)
(*      drop bins with too few non-zeros / too low count / blacklisted / zero or   *)
(*      NaN initial weight, "no remaining data"; and the MAD-max filter on the     *)
(*      sub-family on which it is decidable (the median absolute deviation of the  *)
(*      log marginals is 0, so the cut-off is exactly the chromosome median);      *)
(*  (d) an exact WITNESS family (uniform filtered marginals S in {1,4,16,64}):     *)
(*      one iteration, variance 0, weights 1/sqrt(S) exactly, scale S.            *)
(* Not decided here (floating point): flatness for general matrices, MAD-max in    *)
(* general, convergence for general inputs.                                      *)
EXTENDS CoolerData

\* options o: [mode \in {"genome","cis","trans"}, diags, min_nnz, min_count, mad (BOOLEAN: mad_max > 0), black (sequence
\* of bin ids), x0 (sequence over bins: 1 = one, 0 = zero, -1 = NaN; <<>> = not given), rescale (BOOLEAN)]
ChromOf(t, b) == t[b + 1][1]
Abs(x) == IF x < 0 THEN -x ELSE x
\* value of a pixel after the pre-marginalisation filters (cis-only zeroes trans pixels; trans-only zeroes
\* cis pixels only INSIDE the iteration, not for the bin filters)
Filtered(t, p, o) ==
  IF o.mode = "cis" /\ ChromOf(t, p[1]) # ChromOf(t, p[2]) THEN 0
  ELSE IF Abs(p[1] - p[2]) < o.diags THEN 0
  ELSE p[3]
InScope(t, p, o) == IF o.mode = "trans" THEN ChromOf(t, p[1]) # ChromOf(t, p[2]) ELSE TRUE
\* bincount(bin1) + bincount(bin2) of f(pixel): a diagonal pixel counts twice
MargOf(px, i, F(_)) ==
  SumSeq([k \in DOMAIN px |-> (IF px[k][1] = i THEN F(px[k]) ELSE 0) + (IF px[k][2] = i THEN F(px[k]) ELSE 0)])
Marg(t, px, o, i) == MargOf(px, i, LAMBDA p : Filtered(t, p, o))
MargNnz(t, px, o, i) == MargOf(px, i, LAMBDA p : IF Filtered(t, p, o) # 0 THEN 1 ELSE 0)

\* chromosome medians of the positive marginals, for the decidable MAD sub-family
PosMargs(t, px, o, c) == {i \in 0..(Len(t) - 1) : ChromOf(t, i) = c /\ Marg(t, px, o, i) > 0}
\* M is the median of the positive marginals of chromosome c and MORE than half of them equal it
MedianIs(t, px, o, c, M) ==
  LET P == PosMargs(t, px, o, c) IN
    /\ P # {}
    /\ 2 * Cardinality({i \in P : Marg(t, px, o, i) = M}) > Cardinality(P)
HasMedian(t, px, o, c) == \E i \in PosMargs(t, px, o, c) : MedianIs(t, px, o, c, Marg(t, px, o, i))
MedianOf(t, px, o, c) == Marg(t, px, o, CHOOSE i \in PosMargs(t, px, o, c) : MedianIs(t, px, o, c, Marg(t, px, o, i)))
\* the family: every chromosome with data has such a median and, over the whole genome, more than half of the
\* positive marginals sit exactly on their chromosome's median (=> normalised value 1, log 0, median 0, MAD 0,
\* cut-off exp(0) = 1: the filter removes exactly the bins below their chromosome's median)
AllPos(t, px, o) == {i \in 0..(Len(t) - 1) : Marg(t, px, o, i) > 0}
MadDecidable(t, px, o) ==
  /\ \A c \in 0..(NChroms(t) - 1) : PosMargs(t, px, o, c) # {} => HasMedian(t, px, o, c)
  /\ 2 * Cardinality({i \in AllPos(t, px, o) : Marg(t, px, o, i) = MedianOf(t, px, o, ChromOf(t, i))}) > Cardinality(AllPos(t, px, o))
MadRemoves(t, px, o, i) ==
  IF Marg(t, px, o, i) = 0 THEN TRUE                       \* 0 < cut-off
  ELSE Marg(t, px, o, i) < MedianOf(t, px, o, ChromOf(t, i))

X0At(o, i) == IF Len(o.x0) = 0 THEN 1 ELSE o.x0[i + 1]
Retained(t, px, o, i) ==
  /\ X0At(o, i) = 1
  /\ (o.min_nnz = 0 \/ MargNnz(t, px, o, i) >= o.min_nnz)
  /\ (o.min_count = 0 \/ Marg(t, px, o, i) >= o.min_count)
  /\ (~o.mad \/ ~MadRemoves(t, px, o, i))
  /\ i \notin Range(o.black)
\* a pixel that takes part in the iteration
Live(t, px, o, p) == InScope(t, p, o) /\ Filtered(t, p, o) # 0 /\ Retained(t, px, o, p[1]) /\ Retained(t, px, o, p[2])
NoDataAtAll(t, px, o) == \A k \in DOMAIN px : ~Live(t, px, o, px[k])
NoDataOnChrom(t, px, o, c) == \A k \in DOMAIN px : ~(Live(t, px, o, px[k]) /\ ChromOf(t, px[k][1]) = c)
\* the bins that must carry NaN
IsNaN(t, px, o, i) ==
  IF o.mode = "cis" THEN NoDataOnChrom(t, px, o, ChromOf(t, i)) \/ ~Retained(t, px, o, i)
  ELSE NoDataAtAll(t, px, o) \/ ~Retained(t, px, o, i)

-----------------------------------------------------------------------------
(* witness family *)
\* marginal over live pixels only (what the first iteration sees with all retained weights = 1)
LiveMarg(t, px, o, i) == MargOf(px, i, LAMBDA p : IF Live(t, px, o, p) THEN Filtered(t, p, o) ELSE 0)
BinsWithData(t, px, o, S) == {i \in S : LiveMarg(t, px, o, i) > 0}
Uniform(t, px, o, S, m) == BinsWithData(t, px, o, S) # {} /\ \A i \in BinsWithData(t, px, o, S) : LiveMarg(t, px, o, i) = m
SqrtExp(m) == IF m = 1 THEN 0 ELSE IF m = 4 THEN 1 ELSE IF m = 16 THEN 2 ELSE IF m = 64 THEN 3 ELSE -1
ChromBins(t, c) == {i \in 0..(Len(t) - 1) : ChromOf(t, i) = c}
AllBins(t) == 0..(Len(t) - 1)
\* trans-only multiplies every weight by 1 / (1 - n_c / n) inside the iteration: exact only for two chromosomes of
\* equal size (factor 2, marginal x 4)
TransFactor(t) == IF NChroms(t) = 2 /\ Cardinality(ChromBins(t, 0)) = Cardinality(ChromBins(t, 1)) THEN 4 ELSE -1
\* the scale the run must report for the bins S (whole genome or one chromosome), or -1 if not a witness
WitnessScale(t, px, o, S) ==
  LET D == BinsWithData(t, px, o, S) IN
    IF D = {} THEN -1
    ELSE LET m == LiveMarg(t, px, o, CHOOSE i \in D : TRUE) * (IF o.mode = "trans" THEN TransFactor(t) ELSE 1) IN
      IF Uniform(t, px, o, S, LiveMarg(t, px, o, CHOOSE i \in D : TRUE)) /\ m > 0 /\ SqrtExp(m) >= 0 THEN m ELSE -1
\* expected weight of a retained bin, scaled by 2^8
WitnessWeightScaled(m, rescale) == IF rescale THEN 2 ^ (8 - SqrtExp(m)) ELSE 2 ^ 8

-----------------------------------------------------------------------------
(* spans *)
\* balance_cooler: edges = arange(0, nnz + chunk, chunk); spans = consecutive pairs; the reader clips at nnz
BalanceSpans(nnz, chunk) ==
  LET edges == [k \in 1..(CeilDiv(nnz + chunk, chunk)) |-> (k - 1) * chunk] IN
    [k \in 1..(Len(edges) - 1) |-> <<edges[k], edges[k + 1]>>]
Clip(span, nnz) == <<Min2(span[1], nnz), Min2(span[2], nnz)>>
\* util.partition(lo, hi, step)
Partition(lo, hi, step) == [k \in 1..CeilDiv(hi - lo, step) |-> <<lo + (k - 1) * step, Min2(lo + k * step, hi)>>]
\* the clipped spans cover [lo, hi) exactly once
SpansPartition(spans, lo, hi) ==
  \A x \in lo..(hi - 1) : Cardinality({k \in DOMAIN spans : spans[k][1] <= x /\ x < spans[k][2]}) = 1
=============================================================================
