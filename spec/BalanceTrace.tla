------------------------------ MODULE BalanceTrace ------------------------------
(* Trace specification for balancing (C10, C11).                                  *)
EXTENDS Balance, TraceKit

VARIABLE l
All(s, P(_)) == \A k \in DOMAIN s : P(s[k])
Bins(e) == 0..(Len(e.case.table) - 1)
\* `cooler balance --ignore-dist D`: the number of ignored diagonals is the MAXIMUM of --ignore-diags and ceil(D / bin size)
EffO(e) == IF "ignore_dist" \in DOMAIN e.case
           THEN LET d == (e.case.ignore_dist + e.case.binsize - 1) \div e.case.binsize
                IN [e.case.o EXCEPT !.diags = IF d > @ THEN d ELSE @]
           ELSE e.case.o
Decidable(e) == ~e.case.o.mad \/ MadDecidable(e.case.table, e.case.px, EffO(e))

(* bl.balance: balance_cooler / `cooler balance` on integer data *)
ScopeOf(t, o, i) == IF o.mode = "cis" THEN ChromBins(t, ChromOf(t, i)) ELSE AllBins(t)
(* trans-only witness (two chromosomes of equal size, every bin with inter-chromosomal marginal T, rescaling on): the
   property asks for row sums 1 of W * A_trans * W, i.e. weights 1 / sqrt(T).  The pinned code multiplies the weights by
   a chromosome-size factor (2 here) inside the iteration only and returns 1 / sqrt(4T): row sums 1/4 (known finding F19);
   TLC names the clause after what it saw, so that any OTHER wrong value is still a fresh violation. *)
TransWitness(e) ==
  LET t == e.case.table
      px == e.case.px
      o == EffO(e)
      D == BinsWithData(t, px, o, AllBins(t))
      T == LiveMarg(t, px, o, CHOOSE i \in D : TRUE)
      want == 2 ^ (8 - SqrtExp(T))
      pinned == 2 ^ (8 - SqrtExp(4 * T))
      AllAre(x) == \A i \in Bins(e) : ~IsNaN(t, px, o, i) => e.obs.w[i + 1] = x
  IN
  IF SqrtExp(T) < 0 \/ SqrtExp(4 * T) < 0 \/ ~o.rescale THEN << <<"witnessCaseIsWitness", FALSE>> >>
  ELSE IF AllAre(pinned) THEN << <<"transOnlyRowSumsAreOne:weightsOmitChromosomeFactor", FALSE>> >>
  ELSE << <<"transOnlyRowSumsAreOne", AllAre(want)>> >>

BalanceClauses(e) ==
  LET t == e.case.table
      px == e.case.px
      o == EffO(e)
  IN
  IF ~Decidable(e) THEN << <<"notDecided", TRUE>> >>            \* MAD-max outside the decidable sub-family
  ELSE
  << <<"witnessCaseIsWitness", ~e.case.witness \/      \* vacuity guard: a case generated as a witness must be one
          (IF o.mode = "cis" THEN \A c \in 0..(NChroms(t) - 1) : WitnessScale(t, px, o, ChromBins(t, c)) > 0
           ELSE WitnessScale(t, px, o, AllBins(t)) > 0)>>,
     <<"nanSetIsFilterSet", \A i \in Bins(e) : e.obs.nan[i + 1] = IsNaN(t, px, o, i)>>,
     <<"othersFinitePositive", \A i \in Bins(e) : e.obs.nan[i + 1] \/ e.obs.finite_pos[i + 1]>>,
     <<"storedEqualsReturned", e.obs.stored_same>>,        \* stored weights = returned ones, in the collection that was balanced only
     <<"witnessWeightsExact", o.mode = "trans" \/ \A i \in Bins(e) :
          (~IsNaN(t, px, o, i) /\ WitnessScale(t, px, o, ScopeOf(t, o, i)) > 0) =>
             e.obs.w[i + 1] = WitnessWeightScaled(WitnessScale(t, px, o, ScopeOf(t, o, i)), o.rescale)>>,
     \* the statistics come per chromosome in cis-only mode, once otherwise
     <<"statsPerScope", Len(e.obs.converged) = (IF o.mode = "cis" THEN NChroms(t) ELSE 1) /\ Len(e.obs.scale) = Len(e.obs.converged)>>,
     \* with a single iteration allowed, convergence can be reported exactly for the scopes whose (integer) marginals are
     \* already flat - a scope with unequal marginals has NOT converged, whatever another scope did
     <<"convergenceReportedTruthfully", ~("max_iters" \in DOMAIN o /\ o.max_iters = 1 /\ o.mode # "trans") \/
          LET Scopes == IF o.mode = "cis" THEN [c \in 1..NChroms(t) |-> ChromBins(t, c - 1)] ELSE <<AllBins(t)>> IN
          Len(e.obs.converged) = Len(Scopes) /\ \A c \in DOMAIN Scopes :
             LET D == BinsWithData(t, px, o, Scopes[c]) IN
             D = {} \/ (e.obs.converged[c] = (\A i, j \in D : LiveMarg(t, px, o, i) = LiveMarg(t, px, o, j)))>>,
     <<"witnessScaleAndConvergence", Len(e.obs.converged) # (IF o.mode = "cis" THEN NChroms(t) ELSE 1) \/ Len(e.obs.scale) # Len(e.obs.converged) \/
          IF o.mode = "cis"
            THEN \A c \in 0..(NChroms(t) - 1) :
                   WitnessScale(t, px, o, ChromBins(t, c)) > 0 =>
                     (e.obs.scale[c + 1] = WitnessScale(t, px, o, ChromBins(t, c)) /\ e.obs.converged[c + 1])
          ELSE IF o.mode = "trans"
            THEN WitnessScale(t, px, o, AllBins(t)) > 0 => e.obs.converged[1]
            ELSE WitnessScale(t, px, o, AllBins(t)) > 0 =>
                     (e.obs.scale[1] = WitnessScale(t, px, o, AllBins(t)) /\ e.obs.converged[1])>> >>
  \o (IF o.mode = "trans" /\ e.case.witness THEN TransWitness(e) ELSE <<>>)


(* bl.pipeline: split(...).prepare().pipe(filters).pipe(marginalize).reduce(add) through a recording map *)
RowsIn(px, span) == SubSeq(px, span[1] + 1, span[2])
MargVec(t, px, o) == [i \in 1..Len(t) |-> Marg(t, px, o, i - 1)]
PipelineClauses(e) ==
  LET t == e.case.table
      px == e.case.px
      o == EffO(e)
      nnz == Len(px)
      clipped == [k \in DOMAIN e.obs.keys |-> Clip(e.obs.keys[k], nnz)]
  IN
  << <<"spansPartition", SpansPartition(clipped, 0, nnz)>>,
     <<"partialIsMargOfSpan", All(e.obs.results, LAMBDA r : r.partial = MargVec(t, RowsIn(px, Clip(r.key, nnz)), o))>>,
     <<"eachSpanOnce", {r.key : r \in Range(e.obs.results)} = Range(e.obs.keys) /\ Len(e.obs.results) = Len(e.obs.keys)>>,
     <<"foldIsTotal", e.obs.total = MargVec(t, px, o)>>,
     <<"repeatedRunSame", e.obs.total2 = MargVec(t, px, o)>>,
     <<"secondBranchSeesEveryPixel", e.obs.branch_seen = nnz>>,
     <<"drift:spansAsModel", ~e.case.default_spans \/ e.obs.keys = Partition(0, nnz, e.case.chunk)>> >>

(* bl.schedules: the same balancing run for several chunk sizes and map implementations *)
Close(a, b) == (a = b) \/ (a >= 0 /\ b >= 0 /\ a - b <= 2 /\ b - a <= 2)
ScheduleClauses(e) ==
  LET ref == e.obs.runs[1]
      nnz == Len(e.case.px)
  IN
  << <<"sameNaNSet", All(e.obs.runs, LAMBDA r : r.nan = ref.nan)>>,
     <<"sameWeightsUpToSummationOrder", All(e.obs.runs, LAMBDA r : \A i \in DOMAIN r.q : Close(r.q[i], ref.q[i]))>>,
     <<"sameConvergence", All(e.obs.runs, LAMBDA r : r.converged = ref.converged)>>,
     <<"spansPartition", All(e.obs.runs, LAMBDA r : All(r.keysets, LAMBDA ks :
          SpansPartition([k \in DOMAIN ks.keys |-> Clip(ks.keys[k], nnz)], ks.lo, ks.hi)))>>,
     <<"drift:spansAsModel", All(e.obs.runs, LAMBDA r : r.chunk = 0 \/ e.case.o.mode = "cis" \/
          All(r.keysets, LAMBDA ks : ks.keys = BalanceSpans(nnz, r.chunk)))>> >>

Clauses(e) ==
  CASE e.drv = "bl.balance"   -> BalanceClauses(e)
    [] e.drv = "bl.pipeline"  -> PipelineClauses(e)
    [] e.drv = "bl.schedules" -> ScheduleClauses(e)
    [] OTHER -> << <<"unknownDriver", FALSE>> >>

Init == l = 1 /\ KitInit
Next == /\ l <= Len(TraceLog)
        /\ Verdict(TraceLog[l].id, IF Crashed(TraceLog[l]) THEN CrashVerdict ELSE Clauses(TraceLog[l]))
        /\ l' = l + 1
Spec == Init /\ [][Next]_l
Post == KitPost
=============================================================================
