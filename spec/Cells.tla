-------------------------------- MODULE Cells --------------------------------
(* Single-cell files (C17) and chromosome renaming (C18): declarative layer.    *)
(*                                                                             *)
(* A single-cell file = one collection per cell name under /cells, all over one  *)
(* common bin table stored once at the root and shared by hard links; per-cell   *)
(* extra bin columns stay per cell.  create_scool (create/_create.py:1119-1313)  *)
(* writes the root tables, tags the file, then calls create(..., mode="a",       *)
(* append_scool=True) once per cell in sorted name order - in terms of           *)
(* Store.tla: a sequence of append-mode creations, so Store's frame condition    *)
(* (an append-mode creation changes only the link it names) is what makes every  *)
(* earlier cell survive the later ones.                                        *)
(*                                                                             *)
(* Renaming: a partial injective map old -> new applied to the chromosome table  *)
(* (create/_create.py:363-423); nothing but the names may change.               *)
EXTENDS CoolerData

\* names: sequence of chromosome names; m: a function from a subset of names to new names
ApplyRename(names, m) == [k \in DOMAIN names |-> IF names[k] \in DOMAIN m THEN m[names[k]] ELSE names[k]]
Injective(s) == \A a, b \in DOMAIN s : s[a] = s[b] => a = b
\* a renaming is admissible if the result has no duplicate names
Admissible(names, m) == Injective(ApplyRename(names, m))
IndexOfName(names, x) == CHOOSE k \in DOMAIN names : names[k] = x
\* successive renamings
RECURSIVE ApplyChain(_, _, _)
ApplyChain(names, ms, k) == IF k > Len(ms) THEN names ELSE ApplyChain(ApplyRename(names, ms[k]), ms, k + 1)
=============================================================================
