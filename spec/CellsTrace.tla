------------------------------ MODULE CellsTrace ------------------------------
(* Trace specification for single-cell files (C17) and chromosome renaming (C18) *)
EXTENDS Cells, TraceKit

VARIABLE l

All(s, P(_)) == \A k \in DOMAIN s : P(s[k])
RECURSIVE Flat(_, _)
Flat(colls, k) == IF k > Len(colls) THEN <<>> ELSE CSRClauses(colls[k]) \o Flat(colls, k + 1)
CellByName(cells, nm) == CHOOSE c \in Range(cells) : c.name = nm

(* sc.create: create_scool, then list / recognise / read every cell through the ordinary interface *)
ScoolClauses(e) ==
  LET given == e.case.cells
      got == e.obs.cells
      t == e.case.table
  IN
  << <<"recognisedAsScool", e.obs.is_scool>>,
     <<"listingIsGivenNames", {c.name : c \in Range(given)} = Range(e.obs.listed)
                              /\ Len(e.obs.listed) = Len(given)>>,
     <<"cellsAreGiven", All(given, LAMBDA c : CellByName(got, c.name).pixels = c.px)>>,
     <<"cellMatrix", All(given, LAMBDA c :
          LET cc == [n |-> Len(t), mode |-> e.case.mode, px |-> c.px] IN
            Range(CellByName(got, c.name).sparse) = SubBlockRecords(cc, <<0, Len(t), 0, Len(t)>>))>>,
     <<"commonTable", All(got, LAMBDA g : g.bins = t) /\ e.obs.root_bins = t>>,
     \* (cells added by a later call in append mode share the table written by THAT call; sharing is judged for the last batch)
     <<"binsSharedNotCopied", All(got, LAMBDA g : ~g.last_batch \/ (g.bins_addr = e.obs.root_bins_addr /\ g.chroms_addr = e.obs.root_chroms_addr))>>,
     <<"perCellExtraKept", All(given, LAMBDA c : CellByName(got, c.name).extra = c.extra)>>,
     <<"ncells", (\E g \in Range(got) : ~g.last_batch) \/ e.obs.ncells = Len(given)>>,
     <<"laterColumnStaysInItsCell", e.obs.later_column_own /\ Len(e.obs.later_column_leaked) = 0>> >>
  \o Flat([k \in DOMAIN got |-> got[k].raw], 1)

(* rn.rename: a chain of renamings; after each one the live object and a freshly opened one are projected *)
MapOf(pairs) == [x \in {pairs[j][1] : j \in DOMAIN pairs} |-> (CHOOSE q \in Range(pairs) : q[1] = x)[2]]
NamesAt(e, k) == ApplyChain(e.case.names, [j \in 1..k |-> MapOf(e.case.renames[j])], 1)
ViewClauses(e, k, v, tag) ==
  LET t == e.case.table
      c == [n |-> Len(t), mode |-> e.case.mode, px |-> e.case.px]
      nm == NamesAt(e, k)
  IN
  << <<"namesInOrder:" \o tag, v.chromnames = nm /\ v.chromtable_names = nm>>,
     <<"lengthsUnchanged:" \o tag, v.chromlens = ChromLenSeq(t)>>,
     <<"binLabelsRenamed:" \o tag, v.bin_chroms = [b \in DOMAIN t |-> nm[t[b][1] + 1]] /\ v.bin_coords = [b \in DOMAIN t |-> <<t[b][2], t[b][3]>>]>>,
     <<"pixelsUnchanged:" \o tag, v.pixels = e.case.px>>,
     <<"joinedPixelsRenamed:" \o tag, v.join_chroms = [q \in DOMAIN e.case.px |->
          <<nm[t[e.case.px[q][1] + 1][1] + 1], nm[t[e.case.px[q][2] + 1][1] + 1]>>]>>,
     <<"lookupsByNewName:" \o tag, All(v.fetches, LAMBDA q :
          LET w == <<ChromFirst(t, q.c), ChromLast(t, q.c) + 1, ChromFirst(t, q.c2), ChromLast(t, q.c2) + 1>> IN
            /\ q.err = ""
            /\ q.extent = <<w[1], w[2]>>
            /\ Range([j \in DOMAIN q.matrix |-> <<q.matrix[j][1] + w[1], q.matrix[j][2] + w[3], q.matrix[j][3]>>]) = SubBlockRecords(c, w))>>,
     \* selector objects obtained from the live object BEFORE the renaming answer by the new names like fresh ones
     <<"lookupsByNewName:selectorsMadeBefore:" \o tag, v.sel_old = v.sel_new /\ All(v.sel_new, LAMBDA q : q[1] >= 0)>>,
     <<"oldNamesGone:" \o tag, All(v.old_lookups, LAMBDA q : q.err # "")>> >>
RECURSIVE StageClauses(_, _)
StageClauses(e, k) ==
  IF k > Len(e.obs.stages) THEN <<>>
  ELSE ViewClauses(e, k, e.obs.stages[k].live, "live") \o ViewClauses(e, k, e.obs.stages[k].reopened, "reopened")
       \o << <<"rawUnchanged", e.obs.stages[k].raw_rest = e.obs.raw_rest0>>,
             <<"otherCollectionsUntouched", e.obs.stages[k].sibling = e.obs.sibling0>> >>
       \o CSRClauses(e.obs.stages[k].raw)
       \o StageClauses(e, k + 1)
RenameClauses(e) == StageClauses(e, 1)

(* rn.many: renaming in a collection with thousands of one-bin chromosomes c0, c1, ... (every k-th gets a suffix) *)
Digits(k) == IF k < 10 THEN 1 ELSE IF k < 100 THEN 2 ELSE IF k < 1000 THEN 3 ELSE IF k < 10000 THEN 4 ELSE 5
ManyView(e, v, tag) ==
  LET n == e.case.n IN
  << <<"namesInOrder:" \o tag, /\ Len(v.names) = n
          /\ \A k \in 1..n : v.names[k] = "c" \o ToString(k - 1) \o (IF (k - 1) % e.case.every = 0 THEN e.case.suffix ELSE "")>>,
     <<"binLabelsRenamed:" \o tag, v.labels_follow_names /\ v.nbins = n>>,
     <<"lookupsByNewName:" \o tag, v.extent_by_new_name = <<n - 2, n - 1>> >>,
     <<"pixelsUnchanged:" \o tag, v.pixels = e.case.px>> >>
ManyClauses(e) == ManyView(e, e.obs.live, "live") \o ManyView(e, e.obs.reopened, "reopened")

(* rn.big: renaming in a collection with more than a million bins; the labels of the bin table as runs (name, length) *)
BigView(e, v, tag) ==
  LET lens == e.case.lens
      n == Len(lens)
      NewName(k) == IF \E r \in Range(e.case.renames) : r[1] = k - 1
                    THEN (CHOOSE r \in Range(e.case.renames) : r[1] = k - 1)[2] ELSE e.case.names0[k]
      total == FoldLeft(LAMBDA a, b : a + b, 0, lens)
  IN
  << <<"namesInOrder:" \o tag, v.names = [k \in 1..n |-> NewName(k)]>>,
     <<"binLabelsRenamed:" \o tag, v.runs = [k \in 1..n |-> <<NewName(k), lens[k]>>]>>,
     <<"lookupsByNewName:" \o tag, /\ v.extent_last = <<total - lens[n], total>>
                                    /\ v.fetch_last_labels = <<NewName(n)>> /\ v.fetch_last_n = lens[n]>>,
     <<"pixelsUnchanged:" \o tag, v.pixels = e.case.px>> >>
BigClauses(e) == BigView(e, e.obs.live, "live") \o BigView(e, e.obs.reopened, "reopened")

Clauses(e) ==
  CASE e.drv = "sc.create" -> ScoolClauses(e)
    [] e.drv = "rn.big" -> BigClauses(e)
    [] e.drv = "rn.many" -> ManyClauses(e)
    [] e.drv = "rn.rename" -> RenameClauses(e)
    [] OTHER -> << <<"unknownDriver", FALSE>> >>

Init == l = 1 /\ KitInit
Next == /\ l <= Len(TraceLog)
        /\ Verdict(TraceLog[l].id, IF Crashed(TraceLog[l]) THEN CrashVerdict ELSE Clauses(TraceLog[l]))
        /\ l' = l + 1
Spec == Init /\ [][Next]_l
Post == KitPost
=============================================================================
