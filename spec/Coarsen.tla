-------------------------------- MODULE Coarsen --------------------------------
(* Coarsening by an integer factor and multi-resolution files (C08, C09).        *)
(*                                                                              *)
(* Layer D: CoarsenTable (every new bin = union of k consecutive old bins of one  *)
(* chromosome), GroupOf, CoarsenBy (aggregate of the relabelled records).         *)
(* Layer A transcribes src/cooler/_reduce.py:                                    *)
(*   CoarsenBinsA      CoolerCoarsener.coarsen_bins  (every k-th start, every     *)
(*                     k-th end from position k-1, chromosome length as last end) *)
(*   RowEdges          per chromosome old_bin1_offset[c0:c1:k], then nnz          *)
(*   GreedyPrune       _greedy_prune_partition (cuts at multiples of the chunk    *)
(*                     size looked up in the cumulative lengths)                  *)
(*   RebinA            CoolerCoarsener._aggregate: new bin of a record from the   *)
(*                     START coordinate of its old bin: offset + start div size   *)
(*                     when the NEW table has an (inferred) fixed size, else      *)
(*                     lookup in the new table's starts                           *)
(*   CoarsenOutput     one aggregate per span, concatenated in span order         *)
(*                     (workers of a batch may finish in any order; map() returns *)
(*                     results in span order)                                     *)
EXTENDS Merge, Extent

-----------------------------------------------------------------------------
(* Layer D *)
RankInChrom(t, b) == b - ChromFirst(t, t[b + 1][1])             \* b: 0-based old bin id
NewBinsBefore(t, k, c) == SumSeq([cc \in 1..c |-> CeilDiv(Cardinality(BinsOf(t, cc - 1)), k)])
GroupOf(t, k, b) == NewBinsBefore(t, k, t[b + 1][1]) + RankInChrom(t, b) \div k
CoarsenChrom(t, k, c) ==
  LET first == ChromFirst(t, c)
      nb == Cardinality(BinsOf(t, c))
  IN [g \in 1..CeilDiv(nb, k) |->
        <<c, t[first + (g - 1) * k + 1][2], t[Min2(first + g * k, first + nb)][3]>>]
RECURSIVE CoarsenTableFrom(_, _, _)
CoarsenTableFrom(t, k, c) ==
  IF c >= NChroms(t) THEN <<>> ELSE CoarsenChrom(t, k, c) \o CoarsenTableFrom(t, k, c + 1)
CoarsenTable(t, k) == CoarsenTableFrom(t, k, 0)
Relabel(t, k, px) == [m \in DOMAIN px |-> [j \in DOMAIN px[m] |->
                        IF j <= 2 THEN GroupOf(t, k, px[m][j]) ELSE px[m][j]]]
CoarsenBy(t, k, px, aggs) == MergeOf(<<Relabel(t, k, px)>>, aggs)

-----------------------------------------------------------------------------
(* Layer A *)
CoarsenBinsChromA(t, k, c) ==
  LET first == ChromFirst(t, c)
      nb == Cardinality(BinsOf(t, c))
      starts == [g \in 1..CeilDiv(nb, k) |-> t[first + (g - 1) * k + 1][2]]
      ends0 == [g \in 1..(nb \div k) |-> t[first + g * k][3]]
      ends == IF Len(ends0) < Len(starts) THEN Append(ends0, ChromLen(t, c)) ELSE ends0
  IN [g \in DOMAIN starts |-> <<c, starts[g], ends[g]>>]
RECURSIVE CoarsenBinsFromA(_, _, _)
CoarsenBinsFromA(t, k, c) ==
  IF c >= NChroms(t) THEN <<>> ELSE CoarsenBinsChromA(t, k, c) \o CoarsenBinsFromA(t, k, c + 1)
CoarsenBinsA(t, k) == CoarsenBinsFromA(t, k, 0)

\* new bin of old bin b, as the implementation finds it (from the old bin's start coordinate)
RebinA(t, k, b) ==
  LET nt == CoarsenBinsA(t, k)
      c == t[b + 1][1]
      s == t[b + 1][2]
      size == InferBinsize(nt)
  IN IF size # NoSize THEN ChromFirst(nt, c) + s \div size
     ELSE ChromFirst(nt, c) + Cardinality({x \in StartsOf(nt, c) : x <= s}) - 1

\* offs: bin1_offset of the old collection (1-based sequence, offs[i + 1] = offset of bin i)
RECURSIVE RowEdgesFrom(_, _, _, _)
RowEdgesFrom(t, offs, k, c) ==
  IF c >= NChroms(t) THEN <<offs[Len(offs)]>>
  ELSE LET first == ChromFirst(t, c)
           nb == Cardinality(BinsOf(t, c))
       IN [g \in 1..CeilDiv(nb, k) |-> offs[first + (g - 1) * k + 1]] \o RowEdgesFrom(t, offs, k, c + 1)
RowEdges(t, offs, k) == RowEdgesFrom(t, offs, k, 0)
\* _greedy_prune_partition: edges is non-decreasing from 0
PruneIdx(edges, maxlen) ==
  LET total == edges[Len(edges)]
      cuts == {maxlen * i : i \in 0..(CeilDiv(total, maxlen) - 1)} \cup {total}
  IN {Cardinality({j \in DOMAIN edges : edges[j] < x}) + 1 : x \in cuts}
GreedyPrune(edges, maxlen) == LET idx == SetToSortSeq(PruneIdx(edges, maxlen), <) IN [m \in DOMAIN idx |-> edges[idx[m]]]

RelabelA(t, k, px) == [m \in DOMAIN px |-> [j \in DOMAIN px[m] |->
                        IF j <= 2 THEN RebinA(t, k, px[m][j]) ELSE px[m][j]]]
RECURSIVE SpansOutput(_, _, _, _, _, _)
SpansOutput(t, k, px, edges, m, aggs) ==
  IF m >= Len(edges) THEN <<>>
  ELSE (LET part == SubSeq(px, edges[m] + 1, edges[m + 1]) IN
          IF Len(part) = 0 THEN <<>> ELSE MergeOf(<<RelabelA(t, k, part)>>, aggs))
       \o SpansOutput(t, k, px, edges, m + 1, aggs)
CoarsenOutput(t, k, px, chunk, aggs) ==
  SpansOutput(t, k, px, GreedyPrune(RowEdges(t, OffsetsOf(px, Len(t)), k), chunk), 1, aggs)

\* the design rule that makes per-span aggregation sound: no coarse row is split across spans
NoCoarseRowSplit(t, k, px, edges) ==
  \A m \in 2..(Len(edges) - 1) :
     \A a \in 1..edges[m], b \in (edges[m] + 1)..Len(px) :
        GroupOf(t, k, px[a][1]) < GroupOf(t, k, px[b][1])

-----------------------------------------------------------------------------
(* multi-resolution files: get_multiplier_sequence *)
\* resn: sorted sequence of all resolutions (bases and targets); pred[i] = 0 for none (code: -1)
\* pinned code (defect F30): a base that a smaller member divides got a predecessor too - zoomify_cooler then re-derived it
\* from the smaller base and OVERWROTE the copy of the cooler supplied for it
PredOfPinned(resn, i) ==
  LET cands == {p \in 1..(i - 1) : resn[i] % resn[p] = 0} IN IF cands = {} THEN 0 ELSE Max(cands)
\* repaired: a base has no predecessor
PredOf(resn, i, bases) == IF resn[i] \in bases THEN 0 ELSE PredOfPinned(resn, i)
MultiplierSequence(resn, bases) ==
  [i \in DOMAIN resn |-> <<PredOf(resn, i, bases), IF PredOf(resn, i, bases) = 0 THEN 0 ELSE resn[i] \div resn[PredOf(resn, i, bases)]>>]
Refused(resn, bases) == \E i \in DOMAIN resn : PredOf(resn, i, bases) = 0 /\ resn[i] \notin bases
\* Layer D: r is derivable if it is a base or an integer multiple of a derivable smaller member
RECURSIVE Derivable(_, _, _)
Derivable(r, S, bases) ==
  r \in bases \/ \E q \in S : q < r /\ r % q = 0 /\ Derivable(q, S, bases)
=============================================================================
