------------------------------ MODULE CoarsenLock ------------------------------
(* The reader / writer protocol of coarsening with several worker processes        *)
(* (src/cooler/_reduce.py:633-646, create/_create.py:write_pixels), relevant when    *)
(* source and destination are the SAME file (zoomify).  One main process runs the    *)
(* chunk iterator and the writer as coroutines; worker processes read the source.    *)
(*                                                                                *)
(*   iterator: acquire lock; dispatch a batch of spans to the pool with a BLOCKING   *)
(*             map (returns when every worker of the batch has finished); release;   *)
(*             yield the results of the batch one by one                            *)
(*   writer:   for every yielded chunk: acquire lock; open the file for writing;     *)
(*             write; close; release                                               *)
(*   worker:   read its span from the file (no lock of its own)                      *)
(*                                                                                *)
(* Safety: the file is never open for writing while a worker reads it.              *)
(* Liveness: the run terminates (no self-deadlock on the non-reentrant lock).        *)
(* Two deliberate variants show what the design depends on: a LAZY map (results      *)
(* consumed while other workers of the batch still read) breaks the safety           *)
(* property; yielding while the lock is still held deadlocks.                       *)
EXTENDS Naturals, Sequences, FiniteSets

CONSTANTS NSpans, Batch, LazyMap, YieldInsideLock

VARIABLES pc, holder, next, reading, done, pending, writing, written
vars == <<pc, holder, next, reading, done, pending, writing, written>>

Spans == 1..NSpans
BatchOf(k) == {s \in Spans : s >= k /\ s < k + Batch}

Init == /\ pc = "iter" /\ holder = "none" /\ next = 1 /\ reading = {} /\ done = {}
        /\ pending = <<>> /\ writing = FALSE /\ written = {}

\* iterator: take the lock and dispatch the next batch
Dispatch == /\ pc = "iter" /\ next <= NSpans /\ holder = "none"
            /\ holder' = "iter" /\ reading' = BatchOf(next) /\ pc' = "map"
            /\ UNCHANGED <<next, done, pending, writing, written>>
\* a worker finishes reading its span
WorkerDone(s) == /\ s \in reading /\ reading' = reading \ {s} /\ done' = done \cup {s}
                 /\ UNCHANGED <<pc, holder, next, pending, writing, written>>
\* the map returns: blocking = all workers of the batch are done; lazy = at least the first result is there
MapReturns == /\ pc = "map"
              /\ IF LazyMap THEN next \in done ELSE reading = {}
              /\ pending' = [k \in 1..Cardinality(BatchOf(next)) |-> next + k - 1]
              /\ pc' = IF YieldInsideLock THEN "yield" ELSE "release"
              /\ UNCHANGED <<holder, next, reading, done, writing, written>>
Release == /\ pc = "release" /\ holder' = "none" /\ pc' = "yield"
           /\ UNCHANGED <<next, reading, done, pending, writing, written>>
\* the iterator yields the next result of the batch (it must have been computed); control passes to the writer
Yield == /\ pc = "yield" /\ Len(pending) > 0 /\ Head(pending) \in done
         /\ pc' = "wacquire" /\ UNCHANGED <<holder, next, reading, done, pending, writing, written>>
WAcquire == /\ pc = "wacquire" /\ holder = "none" /\ holder' = "writer" /\ writing' = TRUE /\ pc' = "write"
            /\ UNCHANGED <<next, reading, done, pending, written>>
WRelease == /\ pc = "write" /\ writing' = FALSE /\ holder' = "none" /\ written' = written \cup {Head(pending)}
            /\ pending' = Tail(pending)
            /\ pc' = IF Len(pending) > 1 THEN "yield" ELSE "batchend"
            /\ UNCHANGED <<next, reading, done>>
BatchEnd == /\ pc = "batchend"
            /\ (YieldInsideLock => holder' = "none") /\ (~YieldInsideLock => UNCHANGED holder)
            /\ next' = next + Batch /\ pc' = IF next + Batch > NSpans THEN "finished" ELSE "iter"
            /\ UNCHANGED <<reading, done, pending, writing, written>>
Next == Dispatch \/ (\E s \in Spans : WorkerDone(s)) \/ MapReturns \/ Release \/ Yield \/ WAcquire \/ WRelease \/ BatchEnd
Spec == Init /\ [][Next]_vars /\ WF_vars(Next)

NoWriteWhileReading == ~(writing /\ reading # {})
EveryChunkWrittenOnce == pc = "finished" => written = Spans
Terminates == <>(pc = "finished")
\* trace validation (the fold in CoarsenTrace uses these): the events a real run may emit, in order
\* ev.e \in {"A_iter", "R_iter", "A_writer", "R_writer", "RB", "RE"}; state = [holder, reading]
LockStep(st, ev) ==
  IF ev.e = "A_iter" THEN IF st.holder = "none" /\ st.reading = {} THEN [st EXCEPT !.holder = "iter"] ELSE [st EXCEPT !.bad = TRUE]
  ELSE IF ev.e = "RB" THEN IF st.holder = "iter" THEN [st EXCEPT !.reading = @ \cup {ev.s}] ELSE [st EXCEPT !.bad = TRUE]
  ELSE IF ev.e = "RE" THEN IF ev.s \in st.reading THEN [st EXCEPT !.reading = @ \ {ev.s}] ELSE [st EXCEPT !.bad = TRUE]
  ELSE IF ev.e = "R_iter" THEN IF st.holder = "iter" /\ st.reading = {} THEN [st EXCEPT !.holder = "none"] ELSE [st EXCEPT !.bad = TRUE]
  ELSE IF ev.e = "A_writer" THEN IF st.holder = "none" /\ st.reading = {} THEN [st EXCEPT !.holder = "writer"] ELSE [st EXCEPT !.bad = TRUE]
  ELSE IF ev.e = "R_writer" THEN IF st.holder = "writer" THEN [st EXCEPT !.holder = "none"] ELSE [st EXCEPT !.bad = TRUE]
  ELSE [st EXCEPT !.bad = TRUE]
RECURSIVE LockFold(_, _, _)
LockFold(st, evs, k) == IF k > Len(evs) THEN st ELSE LockFold(LockStep(st, evs[k]), evs, k + 1)
LockTraceOK(evs) ==
  LET fin == LockFold([holder |-> "none", reading |-> {}, bad |-> FALSE], evs, 1) IN
    ~fin.bad /\ fin.holder = "none" /\ fin.reading = {}
=============================================================================
