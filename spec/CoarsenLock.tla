------------------------------ MODULE CoarsenLock ------------------------------
(* The reader / writer protocol of coarsening with several worker processes        *)
(* (src/cooler/_reduce.py:633-646, create/_create.py:write_pixels), relevant when    *)
(* source and destination are the SAME file (zoomify).  One main process runs the    *)
(* chunk iterator and the writer as coroutines; worker processes read the source.    *)
(*                                                                                *)
(*   iterator: acquire lock; dispatch a batch of spans to the pool with a BLOCKING   *)
(*             map (returns when every worker of the batch has finished); release;   *)
(*             yield the results of the batch one by one                            *)
(*   writer:   for every yielded chunk: acquire lock; open the file for writing;     *)
(*             write; close; release                                               *)
(*   worker:   read its span from the file (no lock of its own)                      *)
(*                                                                                *)
(* Safety: the file is never open for writing while a worker reads it.              *)
(* Liveness: the run terminates (no self-deadlock on the non-reentrant lock).        *)
(* Two deliberate variants show what the design depends on: a LAZY map (results      *)
(* consumed while other workers of the batch still read) breaks the safety           *)
(* property; yielding while the lock is still held deadlocks.                       *)
EXTENDS Naturals, Sequences, FiniteSets

CONSTANTS
  \* @type: Int;
  NSpans,
  \* @type: Int;
  Batch,
  \* @type: Bool;
  LazyMap,
  \* @type: Bool;
  YieldInsideLock

VARIABLES
  \* @type: Str;
  pc,
  \* @type: Str;
  holder,
  \* @type: Int;
  next,
  \* @type: Set(Int);
  reading,
  \* @type: Set(Int);
  done,
  \* the results of the current batch that are still to be yielded: always the run of span numbers plo .. phi (empty: plo > phi)
  \* @type: Int;
  plo,
  \* @type: Int;
  phi,
  \* @type: Bool;
  writing,
  \* @type: Set(Int);
  written
vars == <<pc, holder, next, reading, done, plo, phi, writing, written>>

SpanBound == 12                                   \* (a constant range keeps the module checkable by Apalache as well)
ASSUME NSpans <= SpanBound
Spans == {s \in 1..SpanBound : s <= NSpans}
BatchOf(k) == {s \in Spans : s >= k /\ s < k + Batch}

Init == /\ pc = "iter" /\ holder = "none" /\ next = 1 /\ reading = {} /\ done = {}
        /\ plo = 1 /\ phi = 0 /\ writing = FALSE /\ written = {}

\* iterator: take the lock and dispatch the next batch
Dispatch == /\ pc = "iter" /\ next <= NSpans /\ holder = "none"
            /\ holder' = "iter" /\ reading' = BatchOf(next) /\ pc' = "map"
            /\ UNCHANGED <<next, done, plo, phi, writing, written>>
\* a worker finishes reading its span
WorkerDone(s) == /\ s \in reading /\ reading' = reading \ {s} /\ done' = done \cup {s}
                 /\ UNCHANGED <<pc, holder, next, plo, phi, writing, written>>
\* the map returns: blocking = all workers of the batch are done; lazy = at least the first result is there
MapReturns == /\ pc = "map"
              /\ IF LazyMap THEN next \in done ELSE reading = {}
              /\ plo' = next /\ phi' = (IF next + Batch - 1 <= NSpans THEN next + Batch - 1 ELSE NSpans)
              /\ pc' = IF YieldInsideLock THEN "yield" ELSE "release"
              /\ UNCHANGED <<holder, next, reading, done, writing, written>>
Release == /\ pc = "release" /\ holder' = "none" /\ pc' = "yield"
           /\ UNCHANGED <<next, reading, done, plo, phi, writing, written>>
\* the iterator yields the next result of the batch (it must have been computed); control passes to the writer
Yield == /\ pc = "yield" /\ plo <= phi /\ plo \in done
         /\ pc' = "wacquire" /\ UNCHANGED <<holder, next, reading, done, plo, phi, writing, written>>
WAcquire == /\ pc = "wacquire" /\ holder = "none" /\ holder' = "writer" /\ writing' = TRUE /\ pc' = "write"
            /\ UNCHANGED <<next, reading, done, plo, phi, written>>
WRelease == /\ pc = "write" /\ writing' = FALSE /\ holder' = "none" /\ written' = written \cup {plo}
            /\ plo' = plo + 1
            /\ pc' = IF plo < phi THEN "yield" ELSE "batchend"
            /\ UNCHANGED <<next, reading, done, phi>>
BatchEnd == /\ pc = "batchend"
            /\ holder' = IF YieldInsideLock THEN "none" ELSE holder
            /\ next' = next + Batch /\ pc' = IF next + Batch > NSpans THEN "finished" ELSE "iter"
            /\ UNCHANGED <<reading, done, plo, phi, writing, written>>
Next == Dispatch \/ (\E s \in Spans : WorkerDone(s)) \/ MapReturns \/ Release \/ Yield \/ WAcquire \/ WRelease \/ BatchEnd
Spec == Init /\ [][Next]_vars /\ WF_vars(Next)

NoWriteWhileReading == ~(writing /\ reading # {})
EveryChunkWrittenOnce == pc = "finished" => written = Spans
Terminates == <>(pc = "finished")

\* ---------------------------------------------------------------------------------------------
\* An INDUCTIVE invariant of the design as implemented (blocking map, release before yield), discharged by Apalache for
\* symbolic NSpans and Batch (tools: apalache-mc check --init=IndInit --inv=IndInv --length=1, and Init => IndInv):
\* the workers read only while the iterator holds the lock in its "map" phase; the writer writes only while it holds the
\* lock, which it can take only when nobody holds it - and nobody reads then.
PCs == {"iter", "map", "release", "yield", "wacquire", "write", "batchend", "finished"}
IndInv ==
  /\ pc \in PCs /\ holder \in {"none", "iter", "writer"} /\ writing \in BOOLEAN
  /\ next >= 1 /\ next <= NSpans + Batch /\ plo >= 1 /\ plo <= NSpans + 1 /\ phi >= 0 /\ phi <= NSpans
  /\ (\A s \in reading : s >= 1 /\ s <= NSpans) /\ (\A s \in done : s >= 1 /\ s <= NSpans)
  /\ (\A s \in written : s >= 1 /\ s <= NSpans)
  /\ (pc # "finished" => next <= NSpans)
  /\ (pc \in {"wacquire", "write"} => plo <= phi)
  /\ (reading # {} => (pc = "map" /\ holder = "iter"))
  /\ (pc \in {"map", "release"} <=> holder = "iter")
  /\ (pc = "write" <=> holder = "writer")
  /\ (writing <=> pc = "write")
  /\ NoWriteWhileReading
\* @type: () => Bool;
ConstInit == NSpans \in 1..12 /\ Batch \in 1..6 /\ LazyMap = FALSE /\ YieldInsideLock = FALSE
\* (Apalache wants constant ranges in the generator: 12 and 6 are the bounds of ConstInit)
IndInit ==
  /\ pc \in PCs /\ holder \in {"none", "iter", "writer"} /\ writing \in BOOLEAN
  /\ next \in 1..18 /\ plo \in 1..13 /\ phi \in 0..12
  /\ reading \in SUBSET (1..12) /\ done \in SUBSET (1..12) /\ written \in SUBSET (1..12)
  /\ IndInv
=============================================================================
