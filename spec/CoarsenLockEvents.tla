--------------------------- MODULE CoarsenLockEvents ---------------------------
(* Replay of a recorded multi-process coarsening (driver co.lock) through the      *)
(* reader / writer protocol of CoarsenLock.tla, reduced to what the events show:   *)
(* who holds the lock and which spans are being read.  The transition relation is   *)
(* the projection of CoarsenLock!Next on <<holder, reading>>: Dispatch = A_iter then *)
(* RB for the spans of the batch, WorkerDone = RE, Release = R_iter (only when no     *)
(* worker reads: the blocking map), WAcquire = A_writer (only when nobody holds the   *)
(* lock and nobody reads), WRelease = R_writer.                                      *)
EXTENDS Naturals, Sequences, FiniteSets

\* trace validation (the fold in CoarsenTrace uses these): the events a real run may emit, in order
\* ev.e \in {"A_iter", "R_iter", "A_writer", "R_writer", "RB", "RE"}; state = [holder, reading]
LockStep(st, ev) ==
  IF ev.e = "A_iter" THEN IF st.holder = "none" /\ st.reading = {} THEN [st EXCEPT !.holder = "iter"] ELSE [st EXCEPT !.bad = TRUE]
  ELSE IF ev.e = "RB" THEN IF st.holder = "iter" THEN [st EXCEPT !.reading = @ \cup {ev.s}] ELSE [st EXCEPT !.bad = TRUE]
  ELSE IF ev.e = "RE" THEN IF ev.s \in st.reading THEN [st EXCEPT !.reading = @ \ {ev.s}] ELSE [st EXCEPT !.bad = TRUE]
  ELSE IF ev.e = "R_iter" THEN IF st.holder = "iter" /\ st.reading = {} THEN [st EXCEPT !.holder = "none"] ELSE [st EXCEPT !.bad = TRUE]
  ELSE IF ev.e = "A_writer" THEN IF st.holder = "none" /\ st.reading = {} THEN [st EXCEPT !.holder = "writer"] ELSE [st EXCEPT !.bad = TRUE]
  ELSE IF ev.e = "R_writer" THEN IF st.holder = "writer" THEN [st EXCEPT !.holder = "none"] ELSE [st EXCEPT !.bad = TRUE]
  ELSE [st EXCEPT !.bad = TRUE]
RECURSIVE LockFold(_, _, _)
LockFold(st, evs, k) == IF k > Len(evs) THEN st ELSE LockFold(LockStep(st, evs[k]), evs, k + 1)
LockTraceOK(evs) ==
  LET fin == LockFold([holder |-> "none", reading |-> {}, bad |-> FALSE], evs, 1) IN
    ~fin.bad /\ fin.holder = "none" /\ fin.reading = {}
=============================================================================
