----------------------------- MODULE CoarsenTrace -----------------------------
(* Trace specification for coarsening (C08) and multi-resolution files (C09).    *)
EXTENDS Coarsen, TraceKit

Lock == INSTANCE CoarsenLockEvents

VARIABLE l

All(s, P(_)) == \A k \in DOMAIN s : P(s[k])
Col(px, v) == [m \in DOMAIN px |-> px[m][v]]
RECURSIVE FlatCSR(_, _)
FlatCSR(colls, k) == IF k > Len(colls) THEN <<>> ELSE CSRClauses(colls[k]) \o FlatCSR(colls, k + 1)

(* co.coarsen: coarsen_cooler / `cooler coarsen` *)
CoarsenClauses(e) ==
  LET t == e.case.table
      k == e.case.k
      want == CoarsenBy(t, k, e.case.px, e.case.aggs)
  IN
  << <<"tableIsGrouped", e.obs.table = CoarsenTable(t, k)>>,
     <<"pixelsAreBlockAggregates", e.obs.px = want>>,
     <<"totalPreserved", e.case.aggs[1] # "sum" \/ e.obs.sum = SumSeq(Col(e.case.px, 3))>>,
     <<"modeKept", e.obs.raw.mode = (IF e.case.mode = "symm" THEN "symmetric-upper" ELSE "square")>>,
     <<"drift:edges", ~e.obs.hasint \/ e.obs.edges = GreedyPrune(RowEdges(t, OffsetsOf(e.case.px, Len(t)), k), e.case.chunk)>> >>
  \o CSRClauses(e.obs.raw)

(* co.algebra: chains of coarsenings and merge/coarsen interleavings, each compared with Layer D *)
AlgebraClauses(e) ==
  LET t == e.case.table
      a == e.case.px
      b == e.case.px2
      k1 == e.case.k1
      k2 == e.case.k2
      t1 == CoarsenTable(t, k1)
  IN
  << <<"composes", e.obs.chain = CoarsenBy(t, k1 * k2, a, <<"sum">>)>>,
     <<"composesTable", e.obs.chain_table = CoarsenTable(t, k1 * k2)>>,
     <<"chainIsStepwise", e.obs.chain = CoarsenBy(t1, k2, CoarsenBy(t, k1, a, <<"sum">>), <<"sum">>)>>,
     <<"commutesWithMerge:coarsenOfMerge", e.obs.coarsen_of_merge = CoarsenBy(t, k1, MergeOf(<<a, b>>, <<"sum">>), <<"sum">>)>>,
     <<"commutesWithMerge:mergeOfCoarsened", e.obs.merge_of_coarsened = e.obs.coarsen_of_merge>> >>

(* zm.multiplier: get_multiplier_sequence *)
MultiplierClauses(e) ==
  LET S == Range(e.case.resolutions) \cup Range(e.case.bases)
      B == Range(e.case.bases)
      resn == SetToSortSeq(S, <)
      refuse == \E r \in S : ~Derivable(r, S, B)
  IN
  IF e.obs.err # "" THEN << <<"nonDerivableRefused:onlyThen", refuse /\ e.obs.err = "ValueError">> >>
  ELSE
  << <<"nonDerivableRefused", ~refuse>>,
     <<"resolutionsSorted", e.obs.resn = resn>>,
     <<"predecessorDivides", \A i \in DOMAIN resn :
          IF e.obs.pred[i] = -1 THEN resn[i] \in B
          ELSE /\ resn[i] \notin B                 \* a base is copied, never re-derived (F30)
               /\ e.obs.pred[i] >= 0 /\ e.obs.pred[i] + 1 < i
               /\ resn[i] = resn[e.obs.pred[i] + 1] * e.obs.mult[i]>>,
     <<"drift:predAsModel", \A i \in DOMAIN resn : e.obs.pred[i] + 1 = PredOf(resn, i, B)>> >>

(* zm.zoomify: zoomify_cooler / `cooler zoomify` on a small base *)
\* total: a level that is not in the file reads as a record that equals nothing the model expects (verdicts are total)
MissingLevel == [res |-> -1, table |-> << <<-1, -1, -1>> >>, px |-> << <<-1, -1, -1>> >>, tag |-> <<-1>>, meta_base |-> -2,
                 raw |-> [binsize |-> -1]]
LevelOf(levels, r) == IF \E x \in Range(levels) : x.res = r THEN CHOOSE x \in Range(levels) : x.res = r ELSE MissingLevel
ZoomClauses(e) ==
  LET t == e.case.table
      b0 == e.case.binsize
      want == Range(e.case.resolutions) \cup Range(e.case.base_res)
      refuse == \E r \in want : ~Derivable(r, want, Range(e.case.base_res))
  IN
  IF e.obs.err # "" THEN << <<"nonDerivableRefused:onlyThen", refuse /\ e.obs.err = "ValueError">> >>
  ELSE
  << <<"nonDerivableRefused", ~refuse>>,
     <<"layoutExact", Range(e.obs.listing) = {<<"resolutions", ToString(r)>> : r \in want} /\ Len(e.obs.listing) = Cardinality(want)>>,
     <<"multiresRecognised", e.obs.multires>>,
     <<"baseFaithful", \A r \in Range(e.case.base_res) :
          /\ LevelOf(e.obs.levels, r).px = CoarsenBy(t, r \div b0, e.case.px, <<e.case.agg>>)
          /\ LevelOf(e.obs.levels, r).table = CoarsenTable(t, r \div b0)>>,
     \* a base level is a COPY of the cooler supplied for it: what only that cooler carries (an extra bin column, its
     \* metadata) is there too - also when a smaller base divides it
     <<"baseFaithful:copyNotRederived", ~e.case.tagged \/ \A r \in Range(e.case.base_res) :
          LevelOf(e.obs.levels, r).tag = <<r>> /\ LevelOf(e.obs.levels, r).meta_base = r>>,
     <<"levelIsDirectCoarsening", \A r \in want :
          /\ LevelOf(e.obs.levels, r).px = (IF r = b0 THEN e.case.px ELSE CoarsenBy(t, r \div b0, e.case.px, <<e.case.agg>>))
          /\ LevelOf(e.obs.levels, r).table = (IF r = b0 THEN t ELSE CoarsenTable(t, r \div b0))>>,
     <<"levelBinsize", \A r \in want : LevelOf(e.obs.levels, r).raw.binsize \in {r, 0}>> >>
  \o FlatCSR([j \in DOMAIN e.obs.levels |-> e.obs.levels[j].raw], 1)

(* zm.multibase: bases that are not coarsenings of one another; each level has exactly one base it can come from *)
MultiBaseClauses(e) ==
  LET bases == e.case.bases
      want == Range(e.case.resolutions) \cup {bases[k].res : k \in DOMAIN bases}
      BaseOf(r) == CHOOSE k \in DOMAIN bases : r % bases[k].res = 0
  IN
  << <<"layoutExact", {x.res : x \in Range(e.obs.levels)} = want /\ Len(e.obs.levels) = Cardinality(want)>>,
     <<"levelIsDirectCoarseningOfItsBase", \A r \in want : \A x \in Range(e.obs.levels) : x.res = r =>
          LET b == bases[BaseOf(r)] IN
          /\ x.px = (IF r = b.res THEN b.px ELSE CoarsenBy(b.table, r \div b.res, b.px, <<"sum">>))
          /\ x.table = (IF r = b.res THEN b.table ELSE CoarsenTable(b.table, r \div b.res))>> >>

(* zm.resspec: `cooler zoomify -r <spec>`: the levels written = the expansion of the spec *)
Nice(start, stop) ==
  LET cand == {start * m * (10 ^ p) : m \in {1, 2, 5}, p \in 0..4} IN SetToSortSeq({x \in cand : x <= stop}, <)
Binary(start, stop) == SetToSortSeq({x \in {start * (2 ^ p) : p \in 0..16} : x <= stop}, <)
ResSpecClauses(e) ==
  LET maxres == e.case.maxres
      cur == e.case.binsize
      Expand(item) ==
        IF item.kind = "n" THEN Range(Nice(item.start, maxres))
        ELSE IF item.kind = "b" THEN Range(Binary(item.start, maxres))
        ELSE IF item.kind = "4dn" THEN {1000, 2000} \cup Range(Nice(5000, maxres))
        ELSE {item.start}
      want == UNION {Expand(e.case.items[j]) : j \in DOMAIN e.case.items} \cup {cur}
  IN
  << <<"resSpecAccepted", e.obs.err = "">>,
     <<"resSpecExpansion", e.obs.err # "" \/ Range(e.obs.levels) = want>> >>

(* co.lock: coarsening with worker processes into the file being read: the logged lock / read events must be a
   behaviour of the reader-writer protocol (CoarsenLock!LockTraceOK), and the result must be right all the same *)
LockClauses(e) ==
  << <<"lockProtocol", Lock!LockTraceOK(e.obs.events)>>,
     <<"workersUsed", \E k \in DOMAIN e.obs.events : e.obs.events[k].e = "RB">>,
     <<"sourceUntouched", e.obs.base_px = e.case.px>>,
     <<"pixelsAreBlockAggregates", e.obs.px = CoarsenBy(e.case.table, e.case.k, e.case.px, <<"sum">>)>>,
     <<"tableIsGrouped", e.obs.table = CoarsenTable(e.case.table, e.case.k)>> >>
  \o CSRClauses(e.obs.raw)

Clauses(e) ==
  CASE e.drv = "co.coarsen"    -> CoarsenClauses(e)
    [] e.drv = "co.lock"       -> LockClauses(e)
    [] e.drv = "co.algebra"    -> AlgebraClauses(e)
    [] e.drv = "zm.multiplier" -> MultiplierClauses(e)
    [] e.drv = "zm.zoomify"    -> ZoomClauses(e)
    [] e.drv = "zm.multibase"  -> MultiBaseClauses(e)
    [] e.drv = "zm.resspec"    -> ResSpecClauses(e)
    [] OTHER -> << <<"unknownDriver", FALSE>> >>

Init == l = 1 /\ KitInit
Next == /\ l <= Len(TraceLog)
        /\ Verdict(TraceLog[l].id, IF Crashed(TraceLog[l]) THEN CrashVerdict ELSE Clauses(TraceLog[l]))
        /\ l' = l + 1
Spec == Init /\ [][Next]_l
Post == KitPost
=============================================================================
