--------------------------- MODULE CollectionTrace ---------------------------
(* Trace specification for whole collections: creation round trips (C01), the   *)
(* CSR format invariants of every collection any producer writes (C02), and the *)
(* index builders at function level (C02).                                      *)
EXTENDS Index, TraceKit

VARIABLE l

All(s, P(_)) == \A k \in DOMAIN s : P(s[k])
Proj(px, v) == [k \in DOMAIN px |-> <<px[k][1], px[k][2], px[k][v]>>]
CollOf(case, v) == [n |-> Len(case.table), mode |-> case.mode, px |-> Proj(case.px, v)]
FullWin(n) == <<0, n, 0, n>>
RECURSIVE FlattenClauses(_, _)
FlattenClauses(colls, k) ==
  IF k > Len(colls) THEN <<>> ELSE CSRClauses(colls[k]) \o FlattenClauses(colls, k + 1)

(* cr.roundtrip: create a cooler from (table, sorted records) in some input form, read it back *)
RoundTripClauses(e) ==
  LET c == CollOf(e.case, 3)
      n == Len(e.case.table)
      o == e.obs.api
  IN
  << <<"pixelsExact", o.pixels = e.case.px>>,
     <<"pixelColumns", o.pcolumns = <<"bin1_id", "bin2_id">> \o e.case.cols>>,
     <<"defaultIndex", o.pindex = [k \in 1..Len(e.case.px) |-> k - 1]>>,
     <<"matrixIsFullMatrix",
         IF e.case.cols[1] = "count"
         THEN /\ o.dense = DenseBlock(c, FullWin(n))
              /\ Range(o.sparse) = SubBlockRecords(c, FullWin(n))
              /\ Cardinality(Range(o.sparse)) = Len(o.sparse)
              /\ o.shape = <<n, n>>
         ELSE TRUE>>,
     <<"extraColumnMatrix",
         IF Len(e.case.cols) > 1
         THEN LET cf == CollOf(e.case, 2 + Len(e.case.cols)) IN
              Range(o.sparse_f) = SubBlockRecords(cf, FullWin(n))
         ELSE TRUE>>,
     <<"tableUnchanged", o.bins = e.case.table /\ o.nbins = n /\ o.chromlens = ChromLenSeq(e.case.table)>>,
     <<"modeUnchanged", o.mode = (IF e.case.mode = "symm" THEN "symmetric-upper" ELSE "square")>>,
     <<"nnzAgrees", o.nnz = Len(e.case.px)>>,
     <<"metaUnchanged", o.meta = e.case.meta>>,
     <<"assemblyUnchanged", o.assembly = e.case.assembly>>,
     <<"infoCommandAgrees", /\ o.cli_meta = e.case.meta /\ o.cli_assembly = e.case.assembly /\ o.cli_nnz = Len(e.case.px)
                             /\ o.cli_nbins = Len(e.case.table)
                             /\ o.cli_mode = (IF e.case.mode = "symm" THEN "symmetric-upper" ELSE "square")>> >>
  \o CSRClauses(e.obs.raw)

(* csr.colls: raw projections of every collection some producer wrote *)
CollsClauses(e) ==
  << <<"producedSomething", Len(e.obs.colls) = e.case.expect>> >> \o FlattenClauses(e.obs.colls, 1)

(* idx.rle: util.rlencode(array, chunksize) ; idx.index: index_pixels / index_bins on sorted keys *)
RleClauses(e) ==
  LET runs == PlainRLE(e.case.a)
      n == Len(e.case.a)
  IN
  << <<"rleStarts",  e.obs.starts = [m \in DOMAIN runs |-> runs[m][1]]>>,
     <<"rleValues",  e.obs.values = [m \in DOMAIN runs |-> runs[m][2]]>>,
     <<"rleLengths", e.obs.lengths = [m \in DOMAIN runs |->
                        (IF m < Len(runs) THEN runs[m + 1][1] ELSE n) - runs[m][1]]>>,
     <<"drift:blockedRLE", [m \in DOMAIN e.obs.starts |-> <<e.obs.starts[m], e.obs.values[m]>>]
                           = BlockedRLE(e.case.a, IF e.case.chunk = 0 THEN Len(e.case.a) + 1 ELSE e.case.chunk)>> >>
IndexClauses(e) ==
  << <<"bin1OffsetIsRLE", e.obs.offset = RLIndex(e.case.keys, e.case.n)>>,
     <<"drift:indexOf", e.obs.offset = IndexOf(e.case.keys, e.case.n, Len(e.case.keys) + 1)>> >>

(* csr.big: > 10^6 pixels; the projection sends the runs of bin1_id and the full bin1_offset *)
OffsetFromRuns(runs, i, len) ==
  LET S == {m \in DOMAIN runs : runs[m][2] >= i} IN IF S = {} THEN len ELSE runs[Min(S)][1]
BigClauses(e) ==
  << <<"runsConsistent", RunsConsistent(e.obs.runs, e.obs.nnz)>>,
     <<"lengthsEqualNnz", \A k \in DOMAIN e.obs.lens : e.obs.lens[k] = e.obs.nnz>>,
     <<"crossesBlockBoundary", e.obs.nnz > 1000000>>,
     <<"bin1OffsetIsRLE", /\ Len(e.obs.bin1_offset) = e.obs.nbins + 1
                          /\ \A i \in 1..(e.obs.nbins + 1) :
                               e.obs.bin1_offset[i] = OffsetFromRuns(e.obs.runs, i - 1, e.obs.nnz)>>,
     <<"bin2SortedWithinRows", e.obs.bin2_unsorted_rows = 0>> >>

Clauses(e) ==
  CASE e.drv = "cr.roundtrip" -> RoundTripClauses(e)
    [] e.drv = "csr.colls"    -> CollsClauses(e)
    [] e.drv = "idx.rle"      -> RleClauses(e)
    [] e.drv = "idx.index"    -> IndexClauses(e)
    [] e.drv = "csr.big"      -> BigClauses(e)
    [] OTHER -> << <<"unknownDriver", FALSE>> >>

Init == l = 1 /\ KitInit
Next == /\ l <= Len(TraceLog)
        /\ Verdict(TraceLog[l].id, IF Crashed(TraceLog[l]) THEN CrashVerdict ELSE Clauses(TraceLog[l]))
        /\ l' = l + 1
Spec == Init /\ [][Next]_l
Post == KitPost
=============================================================================
