------------------------------ MODULE CoolerData ------------------------------
(* Layer D - the declarative data model of a cooler collection.                *)
(*                                                                             *)
(* Everything any other module of the specification states about cooler is     *)
(* phrased against the operators defined here; they are the only "oracle" of   *)
(* the verification framework.                                                 *)
(*                                                                             *)
(* Representation (chosen so that JSON events deserialize into it directly):   *)
(*   bin table  : sequence of <<chrom, start, end>>, chrom = 0-based chromosome *)
(*                index, bins of one chromosome contiguous, in order           *)
(*   pixel list : sequence of <<bin1, bin2, v1, ..., vk>> (0-based bin ids)     *)
(*   collection : [n |-> #bins, mode |-> "symm" | "square", px |-> pixel list] *)
(*   window     : <<i0, i1, j0, j1>>  half-open row range x column range        *)
EXTENDS Naturals, Integers, Sequences, FiniteSets, FiniteSetsExt, SequencesExt, Functions

-----------------------------------------------------------------------------
(* generic helpers *)
SumSeq(s) == FoldLeft(LAMBDA a, b : a + b, 0, s)
Min2(a, b) == IF a <= b THEN a ELSE b
Max2(a, b) == IF a >= b THEN a ELSE b
CeilDiv(a, b) == (a + b - 1) \div b
\* lexicographic order on (bin1, bin2)
PxLess(p, q) == p[1] < q[1] \/ (p[1] = q[1] /\ p[2] < q[2])
PxLeq(p, q)  == p[1] < q[1] \/ (p[1] = q[1] /\ p[2] <= q[2])
StrictlySorted(px) == \A k \in 1..(Len(px) - 1) : PxLess(px[k], px[k + 1])
Sorted(px) == \A k \in 1..(Len(px) - 1) : PxLeq(px[k], px[k + 1])

-----------------------------------------------------------------------------
(* bin tables *)
NChroms(t) == IF Len(t) = 0 THEN 0 ELSE t[Len(t)][1] + 1
BinsOf(t, c) == {k \in DOMAIN t : t[k][1] = c}            \* 1-based positions
\* a valid table: chromosomes 0..m-1 appear in blocks in order, every chromosome has >= 1 bin,
\* bins of a chromosome start at 0, are contiguous and non-empty
ValidTable(t) ==
  /\ Len(t) > 0
  /\ t[1][1] = 0 /\ t[1][2] = 0
  /\ \A k \in DOMAIN t : t[k][2] < t[k][3] /\ t[k][2] >= 0
  /\ \A k \in 1..(Len(t) - 1) :
        \/ t[k + 1][1] = t[k][1] /\ t[k + 1][2] = t[k][3]
        \/ t[k + 1][1] = t[k][1] + 1 /\ t[k + 1][2] = 0
ChromFirst(t, c) == Min(BinsOf(t, c)) - 1                 \* 0-based id of first bin
ChromLast(t, c)  == Max(BinsOf(t, c)) - 1                 \* 0-based id of last bin
ChromLen(t, c)   == t[ChromLast(t, c) + 1][3]
ChromLens(t)     == [c \in 0..(NChroms(t) - 1) |-> ChromLen(t, c)]
ChromLenSeq(t)   == [k \in 1..NChroms(t) |-> ChromLen(t, k - 1)]      \* as a sequence
\* 0-based id of the bin of chromosome c that contains position pos (0 <= pos < length)
BinContaining(t, c, pos) ==
  (CHOOSE k \in BinsOf(t, c) : t[k][2] <= pos /\ pos < t[k][3]) - 1
\* Covering(t,c,s,e): the half-open range <<lo,hi>> of 0-based bin ids of chromosome c that
\* overlap the non-empty coordinate range [s,e)
Overlapping(t, c, s, e) == {k \in BinsOf(t, c) : t[k][2] < e /\ s < t[k][3]}
Covering(t, c, s, e) ==
  LET O == Overlapping(t, c, s, e) IN <<Min(O) - 1, Max(O)>>
\* b is a true fixed bin size of t: every bin is [k*b, min((k+1)*b, length))
TrulyFixed(t, b) ==
  \A c \in 0..(NChroms(t) - 1) :
    \A k \in BinsOf(t, c) :
      LET r == k - 1 - ChromFirst(t, c) IN
        /\ t[k][2] = r * b
        /\ t[k][3] = Min2((r + 1) * b, ChromLen(t, c))
\* fixed-width binning of chromosome lengths (sequence of lengths) with width b
BinnifyChrom(c, len, b) ==
  [r \in 1..CeilDiv(len, b) |-> <<c, (r - 1) * b, Min2(r * b, len)>>]
RECURSIVE BinnifyFrom(_, _, _)
BinnifyFrom(lens, b, c) ==
  IF c > Len(lens) THEN <<>>
  ELSE BinnifyChrom(c - 1, lens[c], b) \o BinnifyFrom(lens, b, c + 1)
Binnify(lens, b) == BinnifyFrom(lens, b, 1)

-----------------------------------------------------------------------------
(* matrices *)
InWin(i, j, w) == w[1] <= i /\ i < w[2] /\ w[3] <= j /\ j < w[4]
PxSet(px) == Range(px)
\* The records of the full matrix that fall inside window w, as a set of <<i, j, v...>>:
\* in square mode the stored records; in symmetric-upper mode additionally the mirror image
\* of every stored off-diagonal record.
Mirror(p) == [k \in DOMAIN p |-> IF k = 1 THEN p[2] ELSE IF k = 2 THEN p[1] ELSE p[k]]
FullRecords(c) ==
  IF c.mode = "symm"
    THEN PxSet(c.px) \cup {Mirror(p) : p \in {q \in PxSet(c.px) : q[1] # q[2]}}
    ELSE PxSet(c.px)
SubBlockRecords(c, w) == {p \in FullRecords(c) : InWin(p[1], p[2], w)}
\* stored records inside the window, in storage order
PixelsInWindow(c, w) == SelectSeq(c.px, LAMBDA p : InWin(p[1], p[2], w))
\* value of column v (3 = first value column) of the full matrix at (i, j); 0 when absent
FullValue(c, i, j, v) ==
  LET S == {p \in FullRecords(c) : p[1] = i /\ p[2] = j} IN
    IF S = {} THEN 0 ELSE (CHOOSE p \in S : TRUE)[v]
\* sub-block as dense matrix: sequence of rows
DenseBlock(c, w) ==
  [i \in 1..(w[2] - w[1]) |-> [j \in 1..(w[4] - w[3]) |-> FullValue(c, w[1] + i - 1, w[3] + j - 1, 3)]]

-----------------------------------------------------------------------------
(* the CSR format invariants (docs/schema_v3.rst)                             *)
\* run-length index: offset[i] (i = 0..n, stored 1-based) = number of rows with key < i
RLIndex(keys, n) == [i \in 1..(n + 1) |-> Cardinality({k \in DOMAIN keys : keys[k] < i - 1})]
\* A raw collection as projected from the HDF5 file (harness/project.py):
\*   [nbins, nchroms, nnz, sum, mode ("symmetric-upper" | "square"), bintype, binsize (0 = null),
\*    table (<<chrom,start,end>>...), chromlens, nnames, bin1, bin2, count, hascount,
\*    lens (length of every pixel column), bin1_offset, chrom_offset]
PixelsOf(raw) == [k \in DOMAIN raw.bin1 |-> <<raw.bin1[k], raw.bin2[k]>>]
ChromCol(t) == [k \in DOMAIN t |-> t[k][1]]
\* the clauses of ValidCSR, individually named so that a rejection says which part of the schema broke
CSR_LengthsEqualNnz(r) == /\ \A k \in DOMAIN r.lens : r.lens[k] = r.nnz
                          /\ Len(r.bin1) = r.nnz /\ Len(r.bin2) = r.nnz
CSR_StrictlySorted(r)  == StrictlySorted(PixelsOf(r))
CSR_InRange(r)         == \A k \in DOMAIN r.bin1 :
                             /\ 0 <= r.bin1[k] /\ r.bin1[k] < r.nbins
                             /\ 0 <= r.bin2[k] /\ r.bin2[k] < r.nbins
CSR_UpperIfSymm(r)     == r.mode = "symmetric-upper" => \A k \in DOMAIN r.bin1 : r.bin1[k] <= r.bin2[k]
CSR_ModeKnown(r)       == r.mode \in {"symmetric-upper", "square"}
CSR_Bin1Offset(r)      == r.bin1_offset = RLIndex(r.bin1, r.nbins)
CSR_ChromOffset(r)     == r.chrom_offset = RLIndex(ChromCol(r.table), r.nchroms)
CSR_Counts(r)          == /\ r.nbins = Len(r.table)
                          /\ r.nchroms = NChroms(r.table)
                          /\ r.nchroms = Len(r.chromlens) /\ r.nchroms = r.nnames
CSR_TableValid(r)      == ValidTable(r.table) /\ r.chromlens = ChromLenSeq(r.table)
CSR_Sum(r)             == r.hascount => r.sum = SumSeq(r.count)
CSR_BinType(r)         == /\ r.bintype \in {"fixed", "variable"}
                          /\ (r.bintype = "fixed") = (r.binsize # 0)
                          /\ r.binsize # 0 => TrulyFixed(r.table, r.binsize)
CSRClauses(r) ==
  << <<"lengthsEqualNnz", CSR_LengthsEqualNnz(r)>>, <<"strictlySorted", CSR_StrictlySorted(r)>>,
     <<"inRange", CSR_InRange(r)>>, <<"upperIfSymm", CSR_UpperIfSymm(r) /\ CSR_ModeKnown(r)>>,
     <<"bin1OffsetIsRLE", CSR_Bin1Offset(r)>>, <<"chromOffsetIsRLE", CSR_ChromOffset(r)>>,
     <<"countsAgree", CSR_Counts(r)>>, <<"tableValid", CSR_TableValid(r)>>,
     <<"sumAgrees", CSR_Sum(r)>>, <<"binTypeAgrees", CSR_BinType(r)>> >>
ValidCSR(r) == \A k \in DOMAIN CSRClauses(r) : CSRClauses(r)[k][2]
=============================================================================
