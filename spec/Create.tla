-------------------------------- MODULE Create --------------------------------
(* The multi-step write of one collection into an HDF5 file, its crash points   *)
(* and what other collections of the file may observe (properties C13, C01,     *)
(* C15's create clauses).                                                       *)
(*                                                                             *)
(* A file is a set of group nodes addressed by PATHS (sequences of names, <<>> = *)
(* root).  A node is [present, fmt, tabs, px]:                                  *)
(*   present  the group exists;  fmt  it carries the `format` attribute, i.e. it *)
(*   is RECOGNISED and LISTED as a cooler;  tabs  which of the four tables exist;*)
(*   px  the pixel records written so far (a sequence).                         *)
(* create() (src/cooler/create/_create.py:507-713) proceeds in `with` blocks,    *)
(* each of which opens and closes the file; the model has one step per block:   *)
(*   Prepare   open in mode w|a; root: delete the four tables only; other path:  *)
(*             create the group (deleting an existing one, with everything      *)
(*             below it), creating missing parents                              *)
(*   Tables    chroms, bins, empty pixel columns                               *)
(*   Chunk(c)  validate c (bounds, triangularity, duplicates within c) - reject  *)
(*             before anything of c is written - then append at the running     *)
(*             offset                                                          *)
(*   Finish    indexes, then the attributes; `format` appears only here         *)
(* A Crash (exception / process death) may happen between any two steps; the     *)
(* input iterator may raise before any chunk.                                   *)
EXTENDS CoolerData

AllTabs == {"chroms", "bins", "pixels", "indexes"}
NoNode == [present |-> FALSE, fmt |-> FALSE, tabs |-> {}, px |-> <<>>]
RootNode == [present |-> TRUE, fmt |-> FALSE, tabs |-> {}, px |-> <<>>]

IsPrefixPath(a, b) == Len(a) <= Len(b) /\ SubSeq(b, 1, Len(a)) = a
StrictlyUnder(p, q) == Len(p) > Len(q) /\ IsPrefixPath(q, p)      \* p lies below q
Ancestors(p) == {SubSeq(p, 1, k) : k \in 0..(Len(p) - 1)}

\* files: [exists, nodes: function Paths -> node]
EmptyFile(Paths) == [exists |-> TRUE, nodes |-> [p \in Paths |-> IF p = <<>> THEN RootNode ELSE NoNode]]
AbsentFile(Paths) == [exists |-> FALSE, nodes |-> [p \in Paths |-> NoNode]]
Recognised(f, p) == f.exists /\ f.nodes[p].present /\ f.nodes[p].fmt
Listing(f) == {p \in DOMAIN f.nodes : Recognised(f, p)}
Complete(nd) == nd.present /\ nd.fmt /\ nd.tabs = AllTabs

-----------------------------------------------------------------------------
(* the steps, as functions on files *)
Prepare(f, dest, mode) ==
  LET base == IF mode = "w" \/ ~f.exists THEN EmptyFile(DOMAIN f.nodes) ELSE f IN
  IF dest = <<>>
    THEN [base EXCEPT !.nodes[dest] = [@ EXCEPT !.tabs = {}, !.px = <<>>]]       \* attributes of the root survive!
    ELSE [base EXCEPT !.nodes = [p \in DOMAIN base.nodes |->
            IF p = dest THEN [present |-> TRUE, fmt |-> FALSE, tabs |-> {}, px |-> <<>>]
            ELSE IF StrictlyUnder(p, dest) THEN NoNode                             \* everything below a re-created group goes
            ELSE IF p \in Ancestors(dest) /\ ~base.nodes[p].present
                 THEN [present |-> TRUE, fmt |-> FALSE, tabs |-> {}, px |-> <<>>] \* missing parents are created
            ELSE base.nodes[p]]]
Tables(f, dest) == [f EXCEPT !.nodes[dest].tabs = @ \cup {"chroms", "bins", "pixels"}]
AppendChunk(f, dest, c) == [f EXCEPT !.nodes[dest].px = @ \o c]
Finish(f, dest) == [f EXCEPT !.nodes[dest] = [@ EXCEPT !.tabs = AllTabs, !.fmt = TRUE]]

\* validation of one chunk (create/_ingest.py:_validate_pixels); records are <<bin1, bin2, ...>>
ChunkValid(c, n, symm) ==
  /\ \A k \in DOMAIN c : c[k][1] >= 0 /\ c[k][2] >= 0 /\ c[k][1] < n /\ c[k][2] < n
  /\ symm => \A k \in DOMAIN c : c[k][1] <= c[k][2]
  /\ \A k, m \in DOMAIN c : k # m => <<c[k][1], c[k][2]>> # <<c[m][1], c[m][2]>>

-----------------------------------------------------------------------------
(* what the properties demand, as predicates over (file before the call, file now) *)
\* C13: a destination that did not hold a cooler before is not recognised unless the call succeeded
DestNotRecognised(pre, f, dest) == Recognised(pre, dest) \/ ~Recognised(f, dest)
\* C13/C15: every other collection of the file is exactly as before (append mode)
NeighboursIntact(pre, f, dest) ==
  \A p \in DOMAIN f.nodes :
     (p # dest /\ ~(dest # <<>> /\ StrictlyUnder(p, dest)) /\ pre.exists /\ pre.nodes[p].present /\ pre.nodes[p].tabs # {})
        => f.nodes[p] = pre.nodes[p]
\* C02/C13: whatever is recognised is complete - except the destination itself while it is being
\* re-created over a cooler that existed before (outside the domain of C13)
RecognisedAreComplete(pre, f, dest, running) ==
  \A p \in DOMAIN f.nodes :
     Recognised(f, p) => (Complete(f.nodes[p]) \/ (running /\ p = dest /\ Recognised(pre, dest)))
=============================================================================
