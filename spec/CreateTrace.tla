------------------------------ MODULE CreateTrace ------------------------------
(* Trace specification for the stepwise write (C13, C15 create clauses).         *)
(* One event = one HISTORY of create() calls on one file.  Inside each call the   *)
(* real file was projected every time the input iterator was asked for the next   *)
(* chunk (the file is closed at that moment) and when the call ended; the fold    *)
(* below steps the functions of Create.tla along and compares the VIEW of the     *)
(* model file with the projection at every point, and evaluates the property      *)
(* predicates (DestNotRecognised, NeighboursIntact, recognition = model) on the   *)
(* observed files themselves.                                                    *)
EXTENDS Create, TraceKit

VARIABLE l

All(s, P(_)) == \A k \in DOMAIN s : P(s[k])
PathsOf(case) == Range(case.paths)
\* projection -> model-shaped file
NodeOf(proj, p) == LET r == CHOOSE x \in Range(proj.nodes) : x.path = p
                   IN [present |-> r.present, fmt |-> r.fmt, tabs |-> Range(r.tabs), px |-> r.px]
FileOf(proj, Paths) == [exists |-> proj.exists, nodes |-> [p \in Paths |-> NodeOf(proj, p)]]
\* what of a model file is observable: pixel content only of complete collections
ViewNode(nd) == IF ~nd.present THEN NoNode
                ELSE IF nd.fmt /\ nd.tabs = AllTabs THEN nd ELSE [nd EXCEPT !.px = <<>>]
View(f) == [exists |-> f.exists, nodes |-> [p \in DOMAIN f.nodes |-> IF f.exists THEN ViewNode(f.nodes[p]) ELSE NoNode]]
RECURSIVE AppendChunks(_, _, _, _)
AppendChunks(f, dest, chunks, k) ==     \* chunks 1..k appended
  IF k = 0 THEN f ELSE AppendChunk(AppendChunks(f, dest, chunks, k - 1), dest, chunks[k])

\* model file at observation point pt of call c started on file f0
ModelAt(f0, c, pt) ==
  LET started == Tables(Prepare(f0, c.dest, c.mode), c.dest) IN
  IF pt.at = "pull" THEN AppendChunks(started, c.dest, c.chunks, pt.k)
  ELSE IF pt.outcome = "ok" THEN Finish(AppendChunks(started, c.dest, c.chunks, Len(c.chunks)), c.dest)
  ELSE IF c.fault.kind \in {"iter_raise", "invalid"} THEN AppendChunks(started, c.dest, c.chunks, c.fault.at)
  \* the (empty) indexes group exists before write_indexes / write_info run; the format attribute does not
  ELSE IF c.fault.kind \in {"crash_indexes", "crash_info", "bad_metadata"}
       THEN [AppendChunks(started, c.dest, c.chunks, Len(c.chunks)) EXCEPT !.nodes[c.dest].tabs = AllTabs]
  ELSE started      \* crash_tables etc.: not compared exactly (see ExactPoint)
\* PROCESS DEATH (fault kind "kill"): the process ended right before the writer opened a file for the at-th time.  Every
\* step opens and closes the file itself, so the file on disk is the result of a PREFIX of the steps - whichever; Layer A
\* says which one (open 1 = Prepare, 2 = Tables, 3+i = chunk i, then the index/attribute step).
Started(f0, c) == Tables(Prepare(f0, c.dest, c.mode), c.dest)
KillStages(f0, c) == {f0, Prepare(f0, c.dest, c.mode)}
                     \cup {AppendChunks(Started(f0, c), c.dest, c.chunks, i) : i \in 0..Len(c.chunks)}
KillStage(f0, c) == IF c.fault.at = 1 THEN f0
                    ELSE IF c.fault.at = 2 THEN Prepare(f0, c.dest, c.mode)
                    ELSE AppendChunks(Started(f0, c), c.dest, c.chunks, IF c.fault.at - 3 < Len(c.chunks) THEN c.fault.at - 3 ELSE Len(c.chunks))
OutcomeOK(c, out) == IF c.fault.kind = "kill"
                     THEN (IF c.fault.at <= 3 + Len(c.chunks) THEN out = "killed" ELSE out \in {"ok", "killed"})
                     ELSE out = (IF c.fault.kind = "none" THEN "ok" ELSE "error")
ExactPoint(c, pt) == pt.at = "pull" \/ pt.outcome = "ok" \/ c.fault.kind \in {"iter_raise", "invalid", "crash_indexes", "crash_info", "bad_metadata"}
ExpectedOutcome(c) == IF c.fault.kind = "none" THEN "ok" ELSE "error"

\* clauses for one call; f0 = MODEL file before the call
CallClauses(Paths, f0, c, o) ==
  LET pre == f0 IN
  << <<"outcomeAsExpected", o.points[Len(o.points)].at = "end" /\ OutcomeOK(c, o.points[Len(o.points)].outcome)>>,
     <<"killedStateIsAPrefixOfTheSteps", o.points[Len(o.points)].outcome # "killed" \/
          \E s \in KillStages(f0, c) : View(FileOf(o.points[Len(o.points)].file, Paths)) = View(s)>>,
     <<"drift:killStage", o.points[Len(o.points)].outcome # "killed" \/
          View(FileOf(o.points[Len(o.points)].file, Paths)) = View(KillStage(f0, c))>>,
     <<"invalidRejected", c.fault.kind = "invalid" => o.points[Len(o.points)].outcome = "error">>,
     <<"stateAsModel", All(o.points, LAMBDA pt : ~ExactPoint(c, pt) \/ View(FileOf(pt.file, Paths)) = View(ModelAt(f0, c, pt)))>>,
     <<"destNotRecognisedUnlessDone", All(o.points, LAMBDA pt :
          (pt.at = "end" /\ pt.outcome = "ok") \/ DestNotRecognised(pre, FileOf(pt.file, Paths), c.dest))>>,
     <<"neighboursIntact", All(o.points, LAMBDA pt :
          c.mode # "a" \/ NeighboursIntact(View(pre), View(FileOf(pt.file, Paths)), c.dest))>>,
     <<"recognitionAnswers", All(o.points, LAMBDA pt : pt.is_cooler_raised = "")>>,
     <<"recognitionIsFormatAttr", All(o.points, LAMBDA pt :
          /\ pt.is_cooler = Recognised(FileOf(pt.file, Paths), c.dest)
          /\ Range(pt.listing) = Listing(FileOf(pt.file, Paths)))>>,
     <<"pulledEveryChunkOnce", c.fault.kind # "none" \/
          [k \in 1..(Len(o.points) - 1) |-> o.points[k].k] = [k \in 1..(Len(c.chunks) + 1) |-> k - 1]>> >>
\* model file after the call (used as the start of the next call)
AfterCall(f0, c, o) == ModelAt(f0, c, o.points[Len(o.points)])

RECURSIVE HistoryClauses(_, _, _, _, _)
HistoryClauses(Paths, f0, calls, obs, k) ==
  IF k > Len(calls) THEN <<>>
  ELSE CallClauses(Paths, f0, calls[k], obs[k])
       \o HistoryClauses(Paths,
            \* continue from the OBSERVED file when the crash point is not modelled exactly
            IF ExactPoint(calls[k], obs[k].points[Len(obs[k].points)]) THEN AfterCall(f0, calls[k], obs[k])
            ELSE FileOf(obs[k].points[Len(obs[k].points)].file, Paths),
            calls, obs, k + 1)

StepsClauses(e) == HistoryClauses(PathsOf(e.case), AbsentFile(PathsOf(e.case)), e.case.calls, e.obs.calls, 1)

(* cr.producer: merge / coarsen / unordered creation / zoomify as producers with an injected failure:   *)
(* only the end state is observed                                                                      *)
ProducerClauses(e) ==
  LET Paths == PathsOf(e.case)
      pre == FileOf(e.obs.before, Paths)
      post == FileOf(e.obs.after, Paths)
  IN
  << <<"outcomeAsExpected", IF e.case.fault.kind = "kill" THEN e.obs.outcome \in {"ok", "killed"}
                             ELSE e.obs.outcome = (IF e.obs.fired THEN "error" ELSE "ok")>>,
     <<"destNotRecognisedUnlessDone", e.obs.outcome = "ok" \/ DestNotRecognised(pre, post, e.case.dest)>>,
     <<"neighboursIntact", NeighboursIntact(View(pre), View(post), e.case.dest)>>,
     <<"recognitionAnswers", e.obs.is_cooler_raised = "">>,
     <<"recognitionIsFormatAttr", /\ e.obs.is_cooler = Recognised(post, e.case.dest)
                                   /\ Range(e.obs.listing) = Listing(post)>>,
     <<"doneIsComplete", e.obs.outcome # "ok" \/ Complete(post.nodes[e.case.dest])>> >>

Clauses(e) ==
  CASE e.drv = "cr.steps"    -> StepsClauses(e)
    [] e.drv = "cr.producer" -> ProducerClauses(e)
    [] OTHER -> << <<"unknownDriver", FALSE>> >>

Init == l = 1 /\ KitInit
Next == /\ l <= Len(TraceLog)
        /\ Verdict(TraceLog[l].id, IF Crashed(TraceLog[l]) THEN CrashVerdict ELSE Clauses(TraceLog[l]))
        /\ l' = l + 1
Spec == Init /\ [][Next]_l
Post == KitPost
=============================================================================
