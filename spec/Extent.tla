-------------------------------- MODULE Extent --------------------------------
(* Genomic coordinates <-> bins (properties C04, C20).                          *)
(*                                                                             *)
(* Layer A transcribes                                                         *)
(*   BinnifyA        util.binnify        ceil(len/b) edges k*b, last edge = len *)
(*   InferBinsize    util.get_binsize    widths of all bins but the last of     *)
(*                                       each chromosome; exactly one => fixed  *)
(*   InferChromsizes util.get_chromsizes end of the last bin per chromosome     *)
(*   ExtentFixed/Var core._region_to_extent  floor/ceil arithmetic, or          *)
(*                                       searchsorted right-1 / left           *)
(*   RegionBounds    util.parse_region   defaults and refusals                 *)
(* Layer D: CoolerData!Covering, TrulyFixed, ValidTable, ChromLens.             *)
EXTENDS CoolerData

NoSize == 0      \* stands for binsize None ("variable")

\* one chromosome binned with width b: sequence of <<start, end>>
BinnifyA(len, b) ==
  LET n == CeilDiv(len, b) IN
    [r \in 1..n |-> <<(r - 1) * b, IF r = n THEN len ELSE r * b>>]
RECURSIVE BinnifyTableFrom(_, _, _)
BinnifyTableFrom(lens, b, c) ==
  IF c > Len(lens) THEN <<>>
  ELSE [r \in DOMAIN BinnifyA(lens[c], b) |-> <<c - 1, BinnifyA(lens[c], b)[r][1], BinnifyA(lens[c], b)[r][2]>>]
       \o BinnifyTableFrom(lens, b, c + 1)
BinnifyTable(lens, b) == BinnifyTableFrom(lens, b, 1)

Width(t, k) == t[k][3] - t[k][2]
\* widths of all bins of chromosome c but its last one
InnerWidths(t, c) == {Width(t, k) : k \in BinsOf(t, c) \ {ChromLast(t, c) + 1}}
AllInnerWidths(t) == UNION {InnerWidths(t, c) : c \in 0..(NChroms(t) - 1)}
\* util.get_binsize as of the pinned tree: the last bin of a chromosome is not looked at
InferBinsizeLoose(t) ==
  IF Cardinality(AllInnerWidths(t)) = 1 THEN CHOOSE b \in AllInnerWidths(t) : TRUE ELSE NoSize
\* util.get_binsize after "fix: get_binsize ...": a last (or only) bin wider than the common width
\* makes the table variable
InferBinsize(t) ==
  LET b == InferBinsizeLoose(t) IN
    IF b # NoSize /\ \E c \in 0..(NChroms(t) - 1) : Width(t, ChromLast(t, c) + 1) > b THEN NoSize ELSE b
InferChromsizes(t) == [c \in 0..(NChroms(t) - 1) |-> t[ChromLast(t, c) + 1][3]]

\* core._region_to_extent
ExtentFixed(t, c, s, e, b) == <<ChromFirst(t, c) + s \div b, ChromFirst(t, c) + CeilDiv(e, b)>>
StartsOf(t, c) == {t[k][2] : k \in BinsOf(t, c)}
ExtentVar(t, c, s, e) ==
  <<ChromFirst(t, c) + Cardinality({x \in StartsOf(t, c) : x <= s}) - 1,
    ChromFirst(t, c) + Cardinality({x \in StartsOf(t, c) : x < e})>>
\* binsize is the bin size RECORDED in the collection (what InferBinsize returned at creation)
ExtentA(t, c, s, e, binsize) ==
  IF binsize # NoSize THEN ExtentFixed(t, c, s, e, binsize) ELSE ExtentVar(t, c, s, e)

\* util.parse_region on a triple with optional bounds (<<>> = None, <<x>> = x); "refused" = <<-1,-1>>
RegionBounds(so, eo, clen) ==
  LET s == IF Len(so) = 0 THEN 0 ELSE so[1]
      e == IF Len(eo) = 0 THEN clen ELSE eo[1]
  IN IF e < s \/ s < 0 \/ e > clen THEN <<-1, -1>> ELSE <<s, e>>

-----------------------------------------------------------------------------
(* Layer D statements *)
\* C04: extent <<lo, hi>> of range [s, e) on chromosome c
ExtentCorrect(t, c, s, e, ext) ==
  IF s < e
    THEN ext = Covering(t, c, s, e)
    ELSE \* empty range: at most one bin, of this chromosome, touching the position
         /\ ext[2] - ext[1] \in {0, 1}
         /\ ext[2] - ext[1] = 1 =>
              /\ ext[1] + 1 \in BinsOf(t, c)
              /\ t[ext[1] + 1][2] <= s /\ s <= t[ext[1] + 1][3]
InsideChrom(t, c, ext) ==
  ext[1] < ext[2] => (ext[1] >= ChromFirst(t, c) /\ ext[2] <= ChromLast(t, c) + 1)
\* C20
TilesExactly(lens, b, t) ==
  /\ ValidTable(t) /\ NChroms(t) = Len(lens)
  /\ \A c \in 0..(Len(lens) - 1) : ChromLen(t, c) = lens[c + 1]
  /\ TrulyFixed(t, b)
ReportedSizeIsTrue(t, b) == b # NoSize => TrulyFixed(t, b)
=============================================================================
