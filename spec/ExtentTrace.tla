----------------------------- MODULE ExtentTrace -----------------------------
(* Trace specification for genomic-range lookups (C04) and bin-table           *)
(* generation / bin-size inference (C20).                                      *)
EXTENDS Extent, TraceKit

VARIABLE l

All(s, P(_)) == \A k \in DOMAIN s : P(s[k])
Coll(case) == [n |-> Len(case.table), mode |-> case.mode, px |-> case.px]
Abs(trip, w) == [k \in DOMAIN trip |-> <<trip[k][1] + w[1], trip[k][2] + w[3], trip[k][3]>>]
Clen(t, c) == ChromLen(t, c)
\* resolved bounds of a recorded region [c, s: opt, e: opt]
Bounds(t, r) == RegionBounds(r.s, r.e, Clen(t, r.c))

(* ext.cooler: extent / offset / bins.fetch / pixels.fetch / matrix.fetch on a real cooler *)
CoolerClauses(e) ==
  LET t == e.case.table
      c == Coll(e.case)
  IN
  << <<"noError", All(e.obs.q, LAMBDA q : q.err = "")>>,
     <<"extentIsCovering", All(e.obs.q, LAMBDA q : q.err # "" \/
          LET bd == Bounds(t, q.r) IN ExtentCorrect(t, q.r.c, bd[1], bd[2], q.extent))>>,
     <<"insideChrom", All(e.obs.q, LAMBDA q : q.err # "" \/ InsideChrom(t, q.r.c, q.extent))>>,
     <<"offsetIsExtentStart", All(e.obs.q, LAMBDA q : q.err # "" \/ q.offset = q.extent[1])>>,
     <<"binsFetch", All(e.obs.q, LAMBDA q : q.err # "" \/
          /\ q.bins = [k \in 1..(q.extent[2] - q.extent[1]) |-> q.extent[1] + k - 1]
          /\ q.binrows = [k \in 1..(q.extent[2] - q.extent[1]) |-> t[q.extent[1] + k]])>>,
     <<"pixelsFetch", All(e.obs.q, LAMBDA q : q.err # "" \/
          q.pixels = SelectSeq(c.px, LAMBDA p : q.extent[1] <= p[1] /\ p[1] < q.extent[2]))>>,
     <<"fetchEqualsSlice", All(e.obs.q, LAMBDA q : q.err # "" \/
          LET w == <<q.extent[1], q.extent[2], q.extent2[1], q.extent2[2]>> IN
            /\ q.mshape = <<w[2] - w[1], w[4] - w[3]>>
            /\ Range(Abs(q.matrix, w)) = SubBlockRecords(c, w)
            /\ Cardinality(Range(q.matrix)) = Len(q.matrix))>>,
     <<"extent2IsCovering", All(e.obs.q, LAMBDA q : q.err # "" \/
          LET bd == Bounds(t, q.r2) IN ExtentCorrect(t, q.r2.c, bd[1], bd[2], q.extent2))>>,
     <<"drift:extentAsModel", All(e.obs.q, LAMBDA q : q.err # "" \/
          LET bd == Bounds(t, q.r) IN q.extent = ExtentA(t, q.r.c, bd[1], bd[2], e.obs.binsize))>> >>

(* ext.refuse: ranges beyond the chromosome, reversed, negative, unknown chromosome must be refused *)
RefuseClauses(e) ==
  << <<"outOfBoundsRefused", All(e.obs.q, LAMBDA q : q.err = "ValueError")>> >>

(* ext.binsize: bin-size / chromosome-size inference on a table; attributes of a cooler created on it *)
BinsizeClauses(e) ==
  LET t == e.case.table IN
  << <<"reportedSizeIsTrue", ReportedSizeIsTrue(t, e.obs.binsize)>>,
     <<"chromsizesAreLastEnds", e.obs.chromsizes = ChromLenSeq(t) /\ e.obs.chromnames_ok>>,
     <<"attrsAgree", /\ e.obs.cooler_binsize = e.obs.binsize
                     /\ e.obs.bintype = (IF e.obs.binsize = NoSize THEN "variable" ELSE "fixed")
                     /\ e.obs.cooler_chromsizes = ChromLenSeq(t)>>,
     <<"drift:inferBinsize", e.obs.binsize = InferBinsize(t)>> >>

(* ext.binnify: fixed-width binning through util.binnify, `cooler makebins`, cli parse_bins *)
BinnifyClauses(e) ==
  LET lens == e.case.lens
      b == e.case.b
  IN
  << <<"tilesExactly", TilesExactly(lens, b, e.obs.table)>>,
     <<"makebinsTiles", TilesExactly(lens, b, e.obs.cli)>>,
     <<"parseBinsTiles", TilesExactly(lens, b, e.obs.parsed) /\ e.obs.parsed_lens = lens>>,
     <<"parseBinsTiles:bedFileWithExtraColumn", e.obs.parsed_bed = e.obs.cli /\ e.obs.parsed_bed_lens = lens>>,
     <<"relIds", e.obs.relids = [k \in DOMAIN e.obs.cli |-> k - 1 - ChromFirst(e.obs.cli, e.obs.cli[k][1]) + e.case.relbase]>>,
     <<"drift:binnifyAsModel", e.obs.table = BinnifyTable(lens, b)>> >>

Clauses(e) ==
  CASE e.drv = "ext.cooler"  -> CoolerClauses(e)
    [] e.drv = "ext.refuse"  -> RefuseClauses(e)
    [] e.drv = "ext.binsize" -> BinsizeClauses(e)
    [] e.drv = "ext.binnify" -> BinnifyClauses(e)
    [] OTHER -> << <<"unknownDriver", FALSE>> >>

Init == l = 1 /\ KitInit
Next == /\ l <= Len(TraceLog)
        /\ Verdict(TraceLog[l].id, IF Crashed(TraceLog[l]) THEN CrashVerdict ELSE Clauses(TraceLog[l]))
        /\ l' = l + 1
Spec == Init /\ [][Next]_l
Post == KitPost
=============================================================================
