-------------------------------- MODULE Index --------------------------------
(* The CSR index builders (property C02).                                       *)
(*   BlockedRLE   util.rlencode(array, chunksize): block loop carrying last_val *)
(*   IndexOf      create.index_pixels / index_bins: fill offset[curr..value] =  *)
(*                start for every run, tail = n                                *)
(* Layer D: CoolerData!RLIndex ("offset[i] = number of rows with key < i").     *)
EXTENDS CoolerData

\* run-length encoding of one block x (a sequence) whose first element is at absolute position
\* base (0-based); `last` is the last value of the previous block (-1 = none, keys are >= 0).
\* Returns a sequence of <<start, value>>.
BlockRuns(x, base, last) ==
  LET locs == {k \in 2..Len(x) : x[k] # x[k - 1]} \cup (IF x[1] # last THEN {1} ELSE {})
  IN [m \in 1..Cardinality(locs) |->
        LET k == CHOOSE kk \in locs : Cardinality({z \in locs : z < kk}) = m - 1
        IN <<base + k - 1, x[k]>>]
RECURSIVE BlockedRunsFrom(_, _, _, _)
BlockedRunsFrom(a, i, chunk, last) ==
  IF i > Len(a) THEN <<>>
  ELSE LET hi == Min2(i + chunk - 1, Len(a))
           x == SubSeq(a, i, hi)
       IN BlockRuns(x, i - 1, last) \o BlockedRunsFrom(a, hi + 1, chunk, x[Len(x)])
\* util.rlencode: <<start, value>> per run (lengths follow from the starts)
BlockedRLE(a, chunk) == IF Len(a) = 0 THEN <<>> ELSE BlockedRunsFrom(a, 1, chunk, -1)
\* the declarative RLE: a run starts wherever the value changes
PlainRLE(a) ==
  LET locs == {k \in 1..Len(a) : k = 1 \/ a[k] # a[k - 1]}
  IN [m \in 1..Cardinality(locs) |->
        LET k == CHOOSE kk \in locs : Cardinality({z \in locs : z < kk}) = m - 1
        IN <<k - 1, a[k]>>]

\* index_pixels / index_bins on the runs of a SORTED key column with keys in 0..n-1:
\* offset[curr..value] = start; curr = value + 1; finally offset[curr..n] = len
RECURSIVE FillFrom(_, _, _, _, _)
FillFrom(runs, m, curr, off, len) ==
  IF m > Len(runs) THEN [i \in DOMAIN off |-> IF i - 1 >= curr THEN len ELSE off[i]]
  ELSE LET s == runs[m][1]
           v == runs[m][2]
       IN FillFrom(runs, m + 1, v + 1, [i \in DOMAIN off |-> IF i - 1 >= curr /\ i - 1 <= v THEN s ELSE off[i]], len)
IndexOf(keys, n, chunk) == FillFrom(BlockedRLE(keys, chunk), 1, 0, [i \in 1..(n + 1) |-> 0], Len(keys))
\* the same from an externally supplied run list (used for the >10^6-row end-to-end check, where the
\* projection sends runs instead of the raw column)
IndexFromRuns(runs, n, len) == FillFrom(runs, 1, 0, [i \in 1..(n + 1) |-> 0], len)
\* runs are consistent with a sorted column of length len: starts strictly increasing from 0,
\* values strictly increasing
RunsConsistent(runs, len) ==
  /\ (len = 0) = (Len(runs) = 0)
  /\ Len(runs) > 0 => runs[1][1] = 0
  /\ \A m \in 1..(Len(runs) - 1) : runs[m][1] < runs[m + 1][1] /\ runs[m][2] < runs[m + 1][2]
  /\ \A m \in DOMAIN runs : runs[m][1] < len
=============================================================================
