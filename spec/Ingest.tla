-------------------------------- MODULE Ingest --------------------------------
(* Binning of contact records (property C05).                                    *)
(*                                                                              *)
(* A record is <<c1, p1, c2, p2, v...>>: chromosome indexes (-1 = a chromosome   *)
(* that is not in the bin table) and positions AS WRITTEN in the input (one- or   *)
(* zero-based).  Layer D: every record whose two anchors lie on known             *)
(* chromosomes within their lengths contributes once to the pixel of the bins     *)
(* CONTAINING its anchors - after mirroring to the upper triangle, or dropping    *)
(* lower-triangle records, as selected; unknown chromosomes are dropped; a        *)
(* position outside its chromosome makes the input rejected.                     *)
(* Layer A transcribes create/_ingest.py:_sanitize_records (decode, drop          *)
(* unknown, shift, bounds check, lower-triangle handling, bin by division when    *)
(* the table has an inferred fixed size, else by search) and                      *)
(* aggregate_records (group by pixel, count / sum).                              *)
EXTENDS Merge, Extent

Shift(rec, onebased) == IF onebased THEN [rec EXCEPT ![2] = @ - 1, ![4] = @ - 1] ELSE rec
KnownRec(rec) == rec[1] >= 0 /\ rec[3] >= 0
InBounds(t, rec) == /\ rec[2] >= 0 /\ rec[2] < ChromLen(t, rec[1])
                    /\ rec[4] >= 0 /\ rec[4] < ChromLen(t, rec[3])
LowerTri(rec) == rec[1] > rec[3] \/ (rec[1] = rec[3] /\ rec[2] > rec[4])
SwapSides(rec) == [k \in DOMAIN rec |-> IF k = 1 THEN rec[3] ELSE IF k = 2 THEN rec[4]
                                        ELSE IF k = 3 THEN rec[1] ELSE IF k = 4 THEN rec[2] ELSE rec[k]]
\* value of a record: its value column if it has one (pre-binned input), else 1 (a contact)
ValueOf(rec) == IF Len(rec) >= 5 THEN rec[5] ELSE 1

-----------------------------------------------------------------------------
(* Layer D *)
Kept(recs, onebased) == SelectSeq([k \in DOMAIN recs |-> Shift(recs[k], onebased)], KnownRec)
Rejected(t, recs, onebased) == \E k \in DOMAIN Kept(recs, onebased) : ~InBounds(t, Kept(recs, onebased)[k])
Oriented(recs, tril) ==
  IF tril = "reflect" THEN [k \in DOMAIN recs |-> IF LowerTri(recs[k]) THEN SwapSides(recs[k]) ELSE recs[k]]
  ELSE IF tril = "drop" THEN SelectSeq(recs, LAMBDA r : ~LowerTri(r))
  ELSE recs
PixelOf(t, rec) == <<BinContaining(t, rec[1], rec[2]), BinContaining(t, rec[3], rec[4]), ValueOf(rec)>>
\* the pixel table the records must produce (sorted, one row per pixel, values summed)
Binned(t, recs, onebased, tril) ==
  LET o == Oriented(Kept(recs, onebased), tril) IN
    MergeOf(<<[k \in DOMAIN o |-> PixelOf(t, o[k])]>>, <<"sum">>)
Retained(t, recs, onebased, tril) == Len(Oriented(Kept(recs, onebased), tril))

-----------------------------------------------------------------------------
(* Layer A *)
\* bounds check: the tabix loader tests pos >= length (strict); _sanitize_records tests pos > length, so a position
\* EQUAL to the chromosome length is accepted - open known finding F3 (the repair breaks an existing test that
\* feeds 1-based positions with --zero-based, see known_findings.json)
ExcessA(t, rec, strict) ==
  IF strict THEN rec[2] >= ChromLen(t, rec[1]) \/ rec[4] >= ChromLen(t, rec[3])
  ELSE rec[2] > ChromLen(t, rec[1]) \/ rec[4] > ChromLen(t, rec[3])
RejectedA(t, recs, onebased, strict) ==
  \E k \in DOMAIN Kept(recs, onebased) :
     LET r == Kept(recs, onebased)[k] IN r[2] < 0 \/ r[4] < 0 \/ ExcessA(t, r, strict)
BinOfA(t, c, p) ==
  LET b == InferBinsize(t) IN
    IF b # NoSize THEN ChromFirst(t, c) + p \div b
    ELSE ChromFirst(t, c) + Cardinality({x \in StartsOf(t, c) : x <= p}) - 1
PixelOfA(t, rec) == <<BinOfA(t, rec[1], rec[2]), BinOfA(t, rec[3], rec[4]), ValueOf(rec)>>
BinnedA(t, recs, onebased, tril) ==
  LET o == Oriented(Kept(recs, onebased), tril) IN
    MergeOf(<<[k \in DOMAIN o |-> PixelOfA(t, o[k])]>>, <<"sum">>)

\* the input class of known finding F3: the ONLY out-of-chromosome anchors are positions equal to the length
AtLength(t, rec) == rec[2] = ChromLen(t, rec[1]) \/ rec[4] = ChromLen(t, rec[3])
OtherwiseOut(t, rec) == rec[2] < 0 \/ rec[4] < 0 \/ rec[2] > ChromLen(t, rec[1]) \/ rec[4] > ChromLen(t, rec[3])
KnownFinding_F3(t, recs, onebased) ==
  LET K == Kept(recs, onebased) IN
    /\ \E k \in DOMAIN K : AtLength(t, K[k])
    /\ \A k \in DOMAIN K : ~OtherwiseOut(t, K[k])

-----------------------------------------------------------------------------
(* pre-binned pixel records <<bin1, bin2, v>> (COO): create/_ingest.py:_sanitize_pixels + validate_pixels *)
ShiftPx(p, onebased) == IF onebased THEN [p EXCEPT ![1] = @ - 1, ![2] = @ - 1] ELSE p
\* Bin IDs are validated on what is LEFT after the triangle option has been applied: with "drop" a lower-triangle record
\* is discarded unseen (it is the redundant copy of a record that is validated), whatever its IDs are.  (The property speaks
\* of positions; for pre-binned IDs this is the reading the code takes, and no record is ever counted in a wrong pixel.)
PxRejected(n, px, onebased, tril) ==
  \E k \in DOMAIN px : LET p == ShiftPx(px[k], onebased) IN
     /\ ~(tril = "drop" /\ p[1] > p[2])
     /\ (p[1] < 0 \/ p[2] < 0 \/ p[1] >= n \/ p[2] >= n)
PxOriented(px, onebased, tril) ==
  LET s == [k \in DOMAIN px |-> ShiftPx(px[k], onebased)] IN
  IF tril = "reflect" THEN [k \in DOMAIN s |-> IF s[k][1] > s[k][2] THEN <<s[k][2], s[k][1], s[k][3]>> ELSE s[k]]
  ELSE IF tril = "drop" THEN SelectSeq(s, LAMBDA p : p[1] <= p[2])
  ELSE s
PxBinned(px, onebased, tril) == MergeOf(<<PxOriented(px, onebased, tril)>>, <<"sum">>)
=============================================================================
