------------------------------ MODULE IngestTrace ------------------------------
(* Trace specification for record binning (C05): the Python API, the text        *)
(* loaders (cooler cload pairs, cooler load -f bg2|coo) and the tabix loader.     *)
EXTENDS Ingest, TraceKit

VARIABLE l
Col3Sum(px) == SumSeq([k \in DOMAIN px |-> px[k][3]])

(* ig.records / ig.bg2: records <<c1, p1, c2, p2[, v]>> *)
RecordClauses(e) ==
  LET t == e.case.table
      recs == e.case.recs
      ob == e.case.one_based
      tr == e.case.tril
      rej == Rejected(t, recs, ob)
  IN
  IF rej THEN
     \* the clause is named after the input class so that the open known finding F3 (text / API loaders accept a
     \* position equal to the chromosome length) is matched exactly and any OTHER acceptance is reported
     IF KnownFinding_F3(t, recs, ob) /\ e.drv # "ig.tabix"
       THEN << <<"outOfChromRejected:positionEqualsLength", e.obs.err # "">> >>
       ELSE << <<"outOfChromRejected", e.obs.err # "">> >>
  ELSE
  << <<"validAccepted", e.obs.err = "">>,
     <<"eachRecordOnceInRightPixel", e.obs.err # "" \/ e.obs.px = Binned(t, recs, ob, tr)>>,
     <<"totalEqualsRetained", e.obs.err # "" \/ e.case.valued \/ Col3Sum(e.obs.px) = Retained(t, recs, ob, tr)>>,
     <<"drift:binnedAsModel", e.obs.err # "" \/ e.obs.px = BinnedA(t, recs, ob, tr)>> >>

(* ig.coo: pre-binned pixel records <<bin1, bin2, v>> *)
CooClauses(e) ==
  LET n == Len(e.case.table)
      rej == PxRejected(n, e.case.px, e.case.one_based, e.case.tril)
  IN
  IF rej THEN << <<"outOfRangeRejected", e.obs.err # "">> >>
  ELSE
  << <<"validAccepted", e.obs.err = "">>,
     <<"eachRecordOnceInRightPixel", e.obs.err # "" \/ e.obs.px = PxBinned(e.case.px, e.case.one_based, e.case.tril)>> >>

Clauses(e) ==
  CASE e.drv \in {"ig.records", "ig.bg2", "ig.tabix"} -> RecordClauses(e)
    [] e.drv = "ig.coo" -> CooClauses(e)
    [] OTHER -> << <<"unknownDriver", FALSE>> >>

Init == l = 1 /\ KitInit
Next == /\ l <= Len(TraceLog)
        /\ Verdict(TraceLog[l].id, IF Crashed(TraceLog[l]) THEN CrashVerdict ELSE Clauses(TraceLog[l]))
        /\ l' = l + 1
Spec == Init /\ [][Next]_l
Post == KitPost
=============================================================================
