SPECIFICATION Spec
CONSTANTS
  MaxNnz = 12
  NChunks = 5
INVARIANT ClippedSpansPartition
INVARIANT FoldIsTotal
INVARIANT EachChunkOnce
CHECK_DEADLOCK FALSE
