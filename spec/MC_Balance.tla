------------------------------- MODULE MC_Balance -------------------------------
(* (a) ALL nnz <= MaxNnz x ALL chunk sizes <= MaxNnz + 2: the clipped spans         *)
(*     partition [0, nnz) (whole table and every sub-range [lo, hi) in cis mode);   *)
(* (b) split-apply-combine as processes: NChunks workers finish in ANY order (one    *)
(*     step each), the reducer folds results in COMPLETION order; whatever the       *)
(*     schedule, the final accumulator is the sum over all chunks and every chunk    *)
(*     is folded exactly once.                                                     *)
EXTENDS Balance, TLC
CONSTANTS MaxNnz, NChunks

VARIABLES pc, nnz, chunk, lo, done, acc, folded
vars == <<pc, nnz, chunk, lo, done, acc, folded>>
\* partial result of chunk k (a stand-in for its marginal vector: distinct powers of two, so that the
\* accumulator identifies exactly which chunks were folded)
Part(k) == 2 ^ (k - 1)
Init == pc = "start" /\ nnz = 0 /\ chunk = 1 /\ lo = 0 /\ done = {} /\ acc = 0 /\ folded = <<>>
PickSizes == /\ pc = "start" /\ \E n \in 0..MaxNnz, c \in 1..(MaxNnz + 2), l \in 0..MaxNnz :
                   l <= n /\ nnz' = n /\ chunk' = c /\ lo' = l
             /\ pc' = "spans" /\ UNCHANGED <<done, acc, folded>>
StartRun == /\ pc = "start" /\ pc' = "run" /\ UNCHANGED <<nnz, chunk, lo, done, acc, folded>>
\* a worker finishes chunk k; its result is folded immediately (imap_unordered) - completion order = fold order
Finish(k) == /\ pc = "run" /\ k \notin done
             /\ done' = done \cup {k} /\ acc' = acc + Part(k) /\ folded' = Append(folded, k)
             /\ UNCHANGED <<pc, nnz, chunk, lo>>
Next == PickSizes \/ StartRun \/ \E k \in 1..NChunks : Finish(k)
Spec == Init /\ [][Next]_vars /\ WF_vars(\E k \in 1..NChunks : Finish(k))

ClippedSpansPartition == pc = "spans" =>
   /\ SpansPartition([k \in DOMAIN BalanceSpans(nnz, chunk) |-> Clip(BalanceSpans(nnz, chunk)[k], nnz)], 0, nnz)
   /\ SpansPartition(Partition(lo, nnz, chunk), lo, nnz)
FoldIsTotal == (pc = "run" /\ done = 1..NChunks) => (acc = 2 ^ NChunks - 1 /\ Len(folded) = NChunks)
EachChunkOnce == pc = "run" => (Cardinality(Range(folded)) = Len(folded) /\ acc = SumSeq([j \in DOMAIN folded |-> Part(folded[j])]))
\* every schedule completes
Completes == <>(pc = "run" => done = 1..NChunks)
=============================================================================
