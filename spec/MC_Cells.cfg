SPECIFICATION Spec
CONSTANTS
  Alphabet = {"a", "b", "chr1", "X"}
  MaxChain = 2
INVARIANT OrderAndCountKept
INVARIANT ChainIsStepwise
INVARIANT LookupsFollow
INVARIANT UntouchedStay
CHECK_DEADLOCK FALSE
