------------------------------- MODULE MC_Cells -------------------------------
(* ALL chromosome-name vectors of length <= 3 over a small alphabet x ALL chains  *)
(* of <= 2 admissible partial renamings: order and count are preserved, lookups  *)
(* by new name find the old position, untouched names stay, a chain equals the   *)
(* step-by-step application, renaming back restores the names.                  *)
EXTENDS Cells, TLC
CONSTANTS Alphabet, MaxChain
VARIABLES names, orig, chain
vars == <<names, orig, chain>>
NameVecs == UNION {{s \in [1..n -> Alphabet] : Injective(s)} : n \in 1..3}
Maps(nv) == UNION {[D -> Alphabet] : D \in SUBSET Range(nv)}
Init == /\ orig \in NameVecs /\ names = orig /\ chain = <<>>
Rename == /\ Len(chain) < MaxChain
          /\ \E m \in Maps(names) : /\ Admissible(names, m)
                                     /\ names' = ApplyRename(names, m) /\ chain' = Append(chain, m)
          /\ UNCHANGED orig
Spec == Init /\ [][Rename]_vars
OrderAndCountKept == Len(names) = Len(orig) /\ Injective(names)
ChainIsStepwise == names = ApplyChain(orig, chain, 1)
LookupsFollow == \A k \in DOMAIN names : IndexOfName(names, names[k]) = k
UntouchedStay == Len(chain) = 1 => \A k \in DOMAIN orig : orig[k] \notin DOMAIN chain[1] => names[k] = orig[k]
=============================================================================
