------------------------------- MODULE MC_Coarsen -------------------------------
(* ALL bin tables (<= MaxChroms chromosomes of length <= MaxLen, all compositions) *)
(* x ALL factors 2..MaxK: the implementation's table = CoarsenTable, every old bin  *)
(* is re-binned into its group (both re-binning paths, selected by the inferred     *)
(* size of the NEW table);                                                        *)
(* ALL stores on the small tables x factors x chunk sizes: spans never split a      *)
(* coarse row, output = CoarsenBy, sorted, totals preserved;                       *)
(* ALL subsets of 1..MaxRes as resolution sets x base subsets: predecessor          *)
(* relation and refusal = derivability.                                           *)
EXTENDS Coarsen, TLC
CONSTANTS MaxChroms, MaxLen, MaxK, MaxRes, StoreBins, PinnedPred

VARIABLES pc, t, k, px, chunk, rs, bases
vars == <<pc, t, k, px, chunk, rs, bases>>
Compositions(n) == {SetToSortSeq({0, n} \cup S, <) : S \in SUBSET (1..(n - 1))}
ChromEdges == UNION {Compositions(n) : n \in 1..MaxLen}
EdgesToBins(c, e) == [j \in 1..(Len(e) - 1) |-> <<c, e[j], e[j + 1]>>]
Init == pc = "start" /\ t = <<>> /\ k = 2 /\ px = <<>> /\ chunk = 1 /\ rs = {} /\ bases = {}
AddChrom == /\ pc \in {"start", "table"} /\ NChroms(t) < MaxChroms
            /\ \E e \in ChromEdges : t' = t \o EdgesToBins(NChroms(t), e)
            /\ \E kk \in 2..MaxK : k' = kk
            /\ pc' = "table" /\ UNCHANGED <<px, chunk, rs, bases>>
Positions == {p \in (0..(Len(t) - 1)) \X (0..(Len(t) - 1)) : p[1] <= p[2]}
PickStore == /\ pc = "table" /\ Len(t) <= StoreBins
             /\ \E S \in SUBSET Positions : px' = SetToSortSeq({<<p[1], p[2], IF p[1] = p[2] THEN 2 ELSE 1>> : p \in S}, PxLess)
             /\ \E ch \in {1, 2, 3, 100} : chunk' = ch
             /\ pc' = "store" /\ UNCHANGED <<t, k, rs, bases>>
PickRes == /\ pc = "start"
           /\ \E S \in SUBSET (1..MaxRes) : S # {} /\ rs' = S /\ \E B \in SUBSET S : B # {} /\ bases' = B
           /\ pc' = "res" /\ UNCHANGED <<t, k, px, chunk>>
Next == AddChrom \/ PickStore \/ PickRes
Spec == Init /\ [][Next]_vars

TableAsDeclared == pc = "table" => (CoarsenBinsA(t, k) = CoarsenTable(t, k) /\ ValidTable(CoarsenTable(t, k))
                                     /\ ChromLenSeq(CoarsenTable(t, k)) = ChromLenSeq(t))
RebinIsGroup == pc = "table" => \A b \in 0..(Len(t) - 1) : RebinA(t, k, b) = GroupOf(t, k, b)
Edges == GreedyPrune(RowEdges(t, OffsetsOf(px, Len(t)), k), chunk)
SpansRespectRows == pc = "store" =>
   /\ Edges[1] = 0 /\ Edges[Len(Edges)] = Len(px)
   /\ \A m \in 1..(Len(Edges) - 1) : Edges[m] <= Edges[m + 1]
   /\ NoCoarseRowSplit(t, k, px, Edges)
OutputIsBlockAggregate == pc = "store" =>
   /\ CoarsenOutput(t, k, px, chunk, <<"sum">>) = CoarsenBy(t, k, px, <<"sum">>)
   /\ StrictlySorted(CoarsenOutput(t, k, px, chunk, <<"sum">>))
   /\ SumSeq([m \in DOMAIN CoarsenBy(t, k, px, <<"sum">>) |-> CoarsenBy(t, k, px, <<"sum">>)[m][3]]) = SumSeq([m \in DOMAIN px |-> px[m][3]])
ResSeq == SetToSortSeq(rs, <)
PredUsed(i) == IF PinnedPred THEN PredOfPinned(ResSeq, i) ELSE PredOf(ResSeq, i, bases)
PredecessorsDivide == pc = "res" =>
   \A i \in DOMAIN ResSeq : LET p == PredUsed(i) IN p # 0 => (p < i /\ ResSeq[i] % ResSeq[p] = 0)
\* C09 "every base level is a faithful copy of its source": a base is never the target of a coarsening step
BasesAreCopiedNotRederived == pc = "res" => \A i \in DOMAIN ResSeq : ResSeq[i] \in bases => PredUsed(i) = 0
RefusalIsNonDerivability == pc = "res" =>
   (Refused(ResSeq, bases) = (\E r \in rs : ~Derivable(r, rs, bases)))
=============================================================================
