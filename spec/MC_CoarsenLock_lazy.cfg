SPECIFICATION Spec
CONSTANTS
  NSpans = 5
  Batch = 2
  LazyMap = TRUE
  YieldInsideLock = FALSE
INVARIANT NoWriteWhileReading
INVARIANT EveryChunkWrittenOnce
PROPERTY Terminates
CHECK_DEADLOCK FALSE
