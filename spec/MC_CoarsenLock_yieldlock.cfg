SPECIFICATION Spec
CONSTANTS
  NSpans = 5
  Batch = 2
  LazyMap = FALSE
  YieldInsideLock = TRUE
INVARIANT NoWriteWhileReading
INVARIANT EveryChunkWrittenOnce
PROPERTY Terminates
CHECK_DEADLOCK FALSE
