SPECIFICATION Spec
CONSTANTS
  MaxChroms = 2
  MaxLen = 4
  MaxK = 4
  MaxRes = 8
  StoreBins = 3
  PinnedPred = TRUE
INVARIANT BasesAreCopiedNotRederived
CHECK_DEADLOCK FALSE
