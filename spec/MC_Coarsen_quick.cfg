SPECIFICATION Spec
CONSTANTS
  MaxChroms = 2
  MaxLen = 4
  MaxK = 4
  MaxRes = 8
  StoreBins = 3
  PinnedPred = FALSE
INVARIANT TableAsDeclared
INVARIANT RebinIsGroup
INVARIANT SpansRespectRows
INVARIANT OutputIsBlockAggregate
INVARIANT PredecessorsDivide
INVARIANT BasesAreCopiedNotRederived
INVARIANT RefusalIsNonDerivability
CHECK_DEADLOCK FALSE
