SPECIFICATION Spec
CONSTANTS
  MaxChroms = 2
  MaxLen = 5
  MaxK = 6
  MaxRes = 12
  StoreBins = 4
INVARIANT TableAsDeclared
INVARIANT RebinIsGroup
INVARIANT SpansRespectRows
INVARIANT OutputIsBlockAggregate
INVARIANT PredecessorsDivide
INVARIANT BasesAreCopiedNotRederived
INVARIANT RefusalIsNonDerivability
CHECK_DEADLOCK FALSE
