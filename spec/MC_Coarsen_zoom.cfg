SPECIFICATION Spec
CONSTANTS
  MaxChroms = 2
  MaxLen = 4
  MaxK = 4
  MaxRes = 12
  StoreBins = 3
INVARIANT TableAsDeclared
INVARIANT RebinIsGroup
INVARIANT SpansRespectRows
INVARIANT OutputIsBlockAggregate
INVARIANT PredecessorsDivide
INVARIANT RefusalIsNonDerivability
CHECK_DEADLOCK FALSE
