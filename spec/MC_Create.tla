------------------------------- MODULE MC_Create -------------------------------
(* Bounded instance: sequences of create() calls on ONE file with destinations    *)
(* root / group / nested group / sibling, modes w|a, chunk streams over NB bins   *)
(* generated step by step by the environment (valid chunks that keep the stream   *)
(* sorted, empty chunks, chunks with one invalid record of each kind, an iterator *)
(* that raises), and a Crash between any two steps.                              *)
EXTENDS Create, TLC
CONSTANTS NB, Symm, MaxCalls, MaxChunks

Paths == {<<>>, <<"a">>, <<"a", "n">>, <<"b">>}
Recs == IF Symm THEN {r \in (0..(NB - 1)) \X (0..(NB - 1)) : r[1] <= r[2]} ELSE (0..(NB - 1)) \X (0..(NB - 1))
BadRecs == {<<-1, 0>>, <<0, NB>>, <<NB, NB>>} \cup (IF Symm /\ NB > 1 THEN {<<1, 0>>} ELSE {})

VARIABLES file, pre, pc, dest, mode, given, calls, damaged
vars == <<file, pre, pc, dest, mode, given, calls, damaged>>

Init == /\ file = AbsentFile(Paths) /\ pre = AbsentFile(Paths) /\ pc = "idle"
        /\ dest = <<>> /\ mode = "w" /\ given = <<>> /\ calls = 0 /\ damaged = {}

Begin == /\ pc = "idle" /\ calls < MaxCalls
         /\ \E d \in Paths, m \in {"w", "a"} : dest' = d /\ mode' = m
         /\ pre' = file /\ pc' = "begun" /\ given' = <<>> /\ calls' = calls + 1 /\ UNCHANGED <<file, damaged>>
DoPrepare == /\ pc = "begun" /\ file' = Prepare(file, dest, mode) /\ pc' = "prepared"
             /\ UNCHANGED <<pre, dest, mode, given, calls, damaged>>
DoTables == /\ pc = "prepared" /\ file' = Tables(file, dest) /\ pc' = "writing"
            /\ UNCHANGED <<pre, dest, mode, given, calls, damaged>>
\* the environment yields a valid chunk: strictly sorted records all greater than what was given so far
LastGiven == IF Len(given) = 0 THEN <<-1, -1>> ELSE given[Len(given)]
ValidChunks == {SetToSortSeq(S, PxLess) : S \in SUBSET {r \in Recs : PxLess(LastGiven, r)}}
YieldValid == /\ pc = "writing" /\ Len(given) < 99
              /\ \E c \in {x \in ValidChunks : Len(x) <= 2} :
                   /\ ChunkValid(c, NB, Symm)
                   /\ file' = AppendChunk(file, dest, c) /\ given' = given \o c
              /\ Cardinality({1}) = 1 /\ pc' = "writing"
              /\ UNCHANGED <<pre, dest, mode, calls, damaged>>
\* ... or a chunk with one invalid record (out of range low / high, lower triangle, duplicate)
YieldInvalid == /\ pc = "writing"
                /\ \E c \in {x \in ValidChunks : Len(x) <= 1} :
                     \E bad \in BadRecs \cup (IF Len(c) > 0 THEN {c[1]} ELSE {}) :
                       \E pos \in 0..Len(c) :
                          LET cc == SubSeq(c, 1, pos) \o <<bad>> \o SubSeq(c, pos + 1, Len(c)) IN
                            ~ChunkValid(cc, NB, Symm)
                /\ pc' = "failed" /\ UNCHANGED <<file, pre, dest, mode, given, calls, damaged>>   \* rejected before any write
IterRaise == /\ pc = "writing" /\ pc' = "failed" /\ UNCHANGED <<file, pre, dest, mode, given, calls, damaged>>
DoFinish == /\ pc = "writing" /\ file' = Finish(file, dest) /\ pc' = "done"
            /\ UNCHANGED <<pre, dest, mode, given, calls, damaged>>
Crash == /\ pc \in {"begun", "prepared", "writing"} /\ pc' = "failed"
         /\ UNCHANGED <<file, pre, dest, mode, given, calls, damaged>>
\* A failed re-creation over a collection that was recognised before the call is outside the domain of C13
\* ("when it did not already hold a cooler"); such paths are remembered and exempted (only the root can be
\* left recognised-but-incomplete, because a non-root group is deleted and created afresh).
Return == /\ pc \in {"done", "failed"} /\ pc' = "idle"
          /\ damaged' = IF pc = "failed" /\ Recognised(pre, dest) /\ Recognised(file, dest) THEN damaged \cup {dest}
                         ELSE IF pc = "done" THEN damaged \ {dest} ELSE damaged
          /\ UNCHANGED <<file, pre, dest, mode, given, calls>>

Next == Begin \/ DoPrepare \/ DoTables \/ YieldValid \/ YieldInvalid \/ IterRaise \/ DoFinish \/ Crash \/ Return
Spec == Init /\ [][Next]_vars
Bound == Len(given) <= MaxChunks

-----------------------------------------------------------------------------
Running == pc \in {"begun", "prepared", "writing", "failed"}
\* C13
FailedOrUnfinishedNeverRecognised == Running => DestNotRecognised(pre, file, dest)
NeighboursUnharmed == (pc # "idle" /\ mode = "a") => NeighboursIntact(pre, file, dest)
OnlyCompleteIsRecognised ==
  \A p \in Paths \ damaged :
     Recognised(file, p) => (Complete(file.nodes[p]) \/ (Running /\ p = dest /\ Recognised(pre, dest)))
\* C01: a successful call stores exactly the records given, in order
StoredIsGiven == pc = "done" => (file.nodes[dest].px = given /\ Recognised(file, dest))
\* C15: write mode replaces the file; re-creating replaces the collection and everything below it
WriteModeReplacesFile == (pc \in {"prepared", "writing", "done"} /\ mode = "w") =>
   \A p \in Paths : (p # dest /\ p \notin Ancestors(dest)) => ~file.nodes[p].present
RecreateReplaces == (pc = "done" /\ dest # <<>>) => \A p \in Paths : StrictlyUnder(p, dest) => ~file.nodes[p].present
\* documented limitation (outside the domain of C13): re-creating at the ROOT over an existing cooler keeps
\* the root's format attribute while its tables are gone - TLC refutes this one
RootRecreateNeverHalfRecognised == Running => \A p \in Paths : Recognised(file, p) => Complete(file.nodes[p])
=============================================================================
