SPECIFICATION SimSpec
CONSTANTS
  NB = 2
  Symm = TRUE
  MaxCalls = 3
  MaxChunks = 3
CONSTRAINT Bound
INVARIANT Emit
INVARIANT FailedOrUnfinishedNeverRecognised
INVARIANT NeighboursUnharmed
CHECK_DEADLOCK FALSE
