------------------------------ MODULE MC_CreateSim ------------------------------
(* spec -> code for the stepwise writer: TLC's random simulation generates          *)
(* behaviours of MC_Create (sequences of create() calls with the chunks the          *)
(* environment yields, invalid records, iterator failures and crashes between        *)
(* steps); each finished behaviour is printed as one JSON line - the calls with      *)
(* their chunk streams and fault - and replayed into the real create_cooler by the   *)
(* driver cr.steps, whose recorded file states are validated against the same        *)
(* model (CreateTrace).                                                            *)
EXTENDS MC_Create, Json
VARIABLE hist
simvars == <<file, pre, pc, dest, mode, given, calls, damaged, hist>>
NoFault == [kind |-> "none", at |-> 0]
LastCall == hist[Len(hist)]
SetLast(c) == [hist EXCEPT ![Len(hist)] = c]
WithV(c) == [k \in DOMAIN c |-> <<c[k][1], c[k][2], 1 + (c[k][1] + 2 * c[k][2])>>]
SimInit == Init /\ hist = <<>>
SBegin == Begin /\ hist' = Append(hist, [dest |-> dest', mode |-> mode', chunks |-> <<>>, fault |-> NoFault])
SPrepare == DoPrepare /\ UNCHANGED hist
STables == DoTables /\ UNCHANGED hist
SYield == /\ pc = "writing"
          /\ \E c \in {x \in ValidChunks : Len(x) <= 2} :
               /\ file' = AppendChunk(file, dest, c) /\ given' = given \o c
               /\ hist' = SetLast([LastCall EXCEPT !.chunks = Append(@, WithV(c))])
          /\ UNCHANGED <<pre, pc, dest, mode, calls, damaged>>
SInvalid == /\ pc = "writing"
            /\ \E c \in {x \in ValidChunks : Len(x) <= 1} :
                 \E bad \in BadRecs \cup (IF Len(c) > 0 THEN {c[1]} ELSE {}) :
                   \E pos \in 0..Len(c) :
                      LET cc == SubSeq(c, 1, pos) \o <<bad>> \o SubSeq(c, pos + 1, Len(c)) IN
                        /\ ~ChunkValid(cc, NB, Symm)
                        /\ hist' = SetLast([LastCall EXCEPT !.chunks = Append(@, WithV(cc)),
                                                             !.fault = [kind |-> "invalid", at |-> Len(LastCall.chunks)]])
            /\ pc' = "failed" /\ UNCHANGED <<file, pre, dest, mode, given, calls, damaged>>
SRaise == IterRaise /\ hist' = SetLast([LastCall EXCEPT !.fault = [kind |-> "iter_raise", at |-> Len(LastCall.chunks)]])
SFinish == DoFinish /\ UNCHANGED hist
\* crashes that the harness can inject from outside: in the table writer (after the group exists), in the index writer
SCrash == /\ pc \in {"prepared", "writing"} /\ pc' = "failed"
          /\ hist' = SetLast([LastCall EXCEPT !.fault = [kind |-> IF pc = "prepared" THEN "crash_tables" ELSE "crash_indexes", at |-> 0]])
          /\ UNCHANGED <<file, pre, dest, mode, given, calls, damaged>>
\* PROCESS DEATH between two steps (the file is closed then): the writer dies right before it opens the file for the
\* at-th time - 1 = before Prepare, 2 = before Tables, 3 + i = before chunk i is written / before the index step
SKill == /\ pc \in {"begun", "prepared", "writing"} /\ pc' = "failed"
         /\ hist' = SetLast([LastCall EXCEPT !.fault = [kind |-> "kill", at |-> IF pc = "begun" THEN 1 ELSE IF pc = "prepared" THEN 2
                                                                                ELSE 3 + Len(LastCall.chunks)]])
         /\ UNCHANGED <<file, pre, dest, mode, given, calls, damaged>>
SReturn == Return /\ UNCHANGED hist
SimNext == SBegin \/ SPrepare \/ STables \/ SYield \/ SInvalid \/ SRaise \/ SFinish \/ SCrash \/ SKill \/ SReturn
SimSpec == SimInit /\ [][SimNext]_simvars
Emit == ~(pc = "idle" /\ calls = MaxCalls) \/ PrintT(ToJson(hist))
=============================================================================
