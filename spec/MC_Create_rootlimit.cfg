SPECIFICATION Spec
CONSTANTS
  NB = 2
  Symm = TRUE
  MaxCalls = 2
  MaxChunks = 3
CONSTRAINT Bound
INVARIANT RootRecreateNeverHalfRecognised
CHECK_DEADLOCK FALSE
