SPECIFICATION Spec
CONSTANTS
  NB = 2
  Symm = TRUE
  MaxCalls = 3
  MaxChunks = 3
CONSTRAINT Bound
INVARIANT FailedOrUnfinishedNeverRecognised
INVARIANT NeighboursUnharmed
INVARIANT OnlyCompleteIsRecognised
INVARIANT StoredIsGiven
INVARIANT WriteModeReplacesFile
INVARIANT RecreateReplaces
CHECK_DEADLOCK FALSE
