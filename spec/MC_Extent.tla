------------------------------- MODULE MC_Extent -------------------------------
(* Bounded instance for C04 / C20: ALL bin tables with <= MaxChroms chromosomes  *)
(* of length <= MaxLen (every composition into bins: uniform, short last, long   *)
(* last, one-bin chromosomes, variable) x ALL (chrom, start, end);              *)
(* ALL chromosome-size vectors x widths for fixed-width binning.                 *)
EXTENDS Extent, TLC

CONSTANTS MaxChroms, MaxLen, MaxWidth

VARIABLES pc, t, q, lens, b
vars == <<pc, t, q, lens, b>>

Compositions(n) == {SetToSortSeq({0, n} \cup S, <) : S \in SUBSET (1..(n - 1))}
ChromEdges == UNION {Compositions(n) : n \in 1..MaxLen}
EdgesToBins(c, e) == [k \in 1..(Len(e) - 1) |-> <<c, e[k], e[k + 1]>>]

Init == pc = "start" /\ t = <<>> /\ q = <<0, 0, 0>> /\ lens = <<>> /\ b = 0

AddChrom == /\ pc \in {"start", "table"} /\ NChroms(t) < MaxChroms
            /\ \E e \in ChromEdges : t' = t \o EdgesToBins(NChroms(t), e)
            /\ pc' = "table" /\ UNCHANGED <<q, lens, b>>
Ask == /\ pc = "table"
       /\ \E c \in 0..(NChroms(t) - 1) : \E s \in 0..ChromLen(t, c) : \E e \in s..ChromLen(t, c) :
             q' = <<c, s, e>>
       /\ pc' = "asked" /\ UNCHANGED <<t, lens, b>>
\* fixed-width binning
PickLens == /\ pc = "start"
            /\ \E m \in 1..MaxChroms : \E l \in [1..m -> 1..MaxLen] : lens' = l
            /\ \E w \in 1..MaxWidth : b' = w
            /\ pc' = "binned" /\ UNCHANGED <<t, q>>
Next == AddChrom \/ Ask \/ PickLens
Spec == Init /\ [][Next]_vars

-----------------------------------------------------------------------------
TablesValid == pc = "table" => ValidTable(t)
\* C20
ReportedSizeTrue == pc = "table" => ReportedSizeIsTrue(t, InferBinsize(t))
ChromsizesAreLastEnds == pc = "table" => InferChromsizes(t) = ChromLens(t)
BinnifyTiles == pc = "binned" =>
   /\ TilesExactly(lens, b, BinnifyTable(lens, b))
   /\ BinnifyTable(lens, b) = Binnify(lens, b)
   /\ InferBinsize(BinnifyTable(lens, b)) \in {b, NoSize}
\* C04 (the extent arithmetic is selected by the RECORDED bin size = InferBinsize(t))
ExtentIsCovering == pc = "asked" =>
   LET ext == ExtentA(t, q[1], q[2], q[3], InferBinsize(t)) IN
     /\ ExtentCorrect(t, q[1], q[2], q[3], ext)
     /\ InsideChrom(t, q[1], ext)
\* the pinned tree's inference (last bin ignored) does NOT satisfy these - kept to document F1
ReportedSizeTrueLoose == pc = "table" => ReportedSizeIsTrue(t, InferBinsizeLoose(t))
ExtentIsCoveringLoose == pc = "asked" =>
   LET ext == ExtentA(t, q[1], q[2], q[3], InferBinsizeLoose(t)) IN
     /\ ExtentCorrect(t, q[1], q[2], q[3], ext)
     /\ InsideChrom(t, q[1], ext)
=============================================================================
