SPECIFICATION Spec
CONSTANTS
  MaxChroms = 2
  MaxLen = 5
  MaxWidth = 6
INVARIANT ReportedSizeTrueLoose
INVARIANT ExtentIsCoveringLoose
CHECK_DEADLOCK FALSE
