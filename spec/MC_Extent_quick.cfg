SPECIFICATION Spec
CONSTANTS
  MaxChroms = 2
  MaxLen = 5
  MaxWidth = 6
INVARIANT TablesValid
INVARIANT ReportedSizeTrue
INVARIANT ChromsizesAreLastEnds
INVARIANT BinnifyTiles
INVARIANT ExtentIsCovering
CHECK_DEADLOCK FALSE
