SPECIFICATION Spec
CONSTANTS
  MaxChroms = 3
  MaxLen = 5
  MaxWidth = 7
INVARIANT TablesValid
INVARIANT ReportedSizeTrue
INVARIANT ChromsizesAreLastEnds
INVARIANT BinnifyTiles
INVARIANT ExtentIsCovering
CHECK_DEADLOCK FALSE
