SPECIFICATION Spec
CONSTANTS
  MaxLen = 6
  NVals = 3
  MaxChunk = 7
INVARIANT BlockedEqualsPlain
INVARIANT IndexIsRLIndex
CHECK_DEADLOCK FALSE
