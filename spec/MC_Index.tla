------------------------------- MODULE MC_Index -------------------------------
(* ALL arrays of length <= MaxLen over NVals values x ALL block sizes:           *)
(* blocked RLE = plain RLE; for sorted key columns the index builder = RLIndex   *)
(* (leading / middle / trailing empty rows included).                            *)
EXTENDS Index, TLC
CONSTANTS MaxLen, NVals, MaxChunk
VARIABLES a, chunk
vars == <<a, chunk>>
Init == a = <<>> /\ chunk = 1
Grow == /\ Len(a) < MaxLen /\ \E v \in 0..(NVals - 1) : a' = Append(a, v) /\ UNCHANGED chunk
Block == /\ chunk < MaxChunk /\ chunk' = chunk + 1 /\ UNCHANGED a
Next == Grow \/ Block
Spec == Init /\ [][Next]_vars
IsSortedKeys == \A k \in 1..(Len(a) - 1) : a[k] <= a[k + 1]
BlockedEqualsPlain == BlockedRLE(a, chunk) = PlainRLE(a)
IndexIsRLIndex == IsSortedKeys => IndexOf(a, NVals, chunk) = RLIndex(a, NVals)
=============================================================================
