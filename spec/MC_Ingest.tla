------------------------------- MODULE MC_Ingest -------------------------------
(* ALL bin tables (<= 2 chromosomes of length <= MaxLen, all compositions) x ALL  *)
(* single records with both anchors anywhere in -1 .. length+1 on a known or an   *)
(* unknown chromosome x zero/one-based x reflect/drop/none: the implementation    *)
(* rejects exactly the out-of-chromosome records and otherwise produces the       *)
(* pixel of the bins CONTAINING the anchors; bags of two records: counted once    *)
(* each, independent of order.                                                   *)
EXTENDS Ingest, TLC
CONSTANTS MaxChroms, MaxLen, MaxRecs
VARIABLES pc, t, recs, ob, tril
vars == <<pc, t, recs, ob, tril>>
Compositions(n) == {SetToSortSeq({0, n} \cup S, <) : S \in SUBSET (1..(n - 1))}
ChromEdges == UNION {Compositions(n) : n \in 1..MaxLen}
EdgesToBins(c, e) == [j \in 1..(Len(e) - 1) |-> <<c, e[j], e[j + 1]>>]
Init == pc = "start" /\ t = <<>> /\ recs = <<>> /\ ob = FALSE /\ tril = "none"
AddChrom == /\ pc \in {"start", "table"} /\ NChroms(t) < MaxChroms
            /\ \E e \in ChromEdges : t' = t \o EdgesToBins(NChroms(t), e)
            /\ pc' = "table" /\ UNCHANGED <<recs, ob, tril>>
Chroms == (-1)..(NChroms(t) - 1)
PosOf(c) == IF c = -1 THEN {0, 5} ELSE (-1)..(ChromLen(t, c) + 2)
AddRecord == /\ pc \in {"table", "rec"} /\ Len(recs) < MaxRecs
             /\ \E c1 \in Chroms, c2 \in Chroms : \E p1 \in PosOf(c1), p2 \in PosOf(c2) :
                  recs' = Append(recs, <<c1, p1, c2, p2>>)
             /\ (IF pc = "table" THEN \E o \in BOOLEAN, tr \in {"reflect", "drop", "none"} : ob' = o /\ tril' = tr
                 ELSE UNCHANGED <<ob, tril>>)
             /\ pc' = "rec" /\ UNCHANGED t
Next == AddChrom \/ AddRecord
Spec == Init /\ [][Next]_vars
\* C05: the sanitizer as coded (non-strict test) rejects exactly the out-of-chromosome inputs - outside the input
\* class of the open known finding F3; the strict test (tabix loader) does so everywhere
RejectsExactlyOutOfChrom == pc = "rec" =>
   /\ (~KnownFinding_F3(t, recs, ob) => (RejectedA(t, recs, ob, FALSE) = Rejected(t, recs, ob)))
   /\ RejectedA(t, recs, ob, TRUE) = Rejected(t, recs, ob)
RightPixelOnce == (pc = "rec" /\ ~Rejected(t, recs, ob)) =>
   /\ BinnedA(t, recs, ob, tril) = Binned(t, recs, ob, tril)
   /\ SumSeq([k \in DOMAIN Binned(t, recs, ob, tril) |-> Binned(t, recs, ob, tril)[k][3]]) = Retained(t, recs, ob, tril)
   /\ tril \in {"reflect", "drop"} => \A k \in DOMAIN Binned(t, recs, ob, tril) : Binned(t, recs, ob, tril)[k][1] <= Binned(t, recs, ob, tril)[k][2]
OrderIndependent == (pc = "rec" /\ Len(recs) = 2 /\ ~Rejected(t, recs, ob)) =>
   Binned(t, <<recs[2], recs[1]>>, ob, tril) = Binned(t, recs, ob, tril)
\* without the exemption the coded bounds check (position == chromosome length accepted) is refuted: F3
RejectsExactlyOutOfChromPinned == pc = "rec" => (RejectedA(t, recs, ob, FALSE) = Rejected(t, recs, ob))
=============================================================================
