SPECIFICATION Spec
CONSTANTS
  MaxChroms = 1
  MaxLen = 3
  MaxRecs = 2
INVARIANT RejectsExactlyOutOfChrom
INVARIANT RightPixelOnce
INVARIANT OrderIndependent
CHECK_DEADLOCK FALSE
