SPECIFICATION Spec
CONSTANTS
  MaxChroms = 1
  MaxLen = 3
  MaxRecs = 1
INVARIANT RejectsExactlyOutOfChromPinned
CHECK_DEADLOCK FALSE
