SPECIFICATION Spec
CONSTANTS
  MaxChroms = 2
  MaxLen = 3
  MaxRecs = 1
INVARIANT RejectsExactlyOutOfChrom
INVARIANT RightPixelOnce
INVARIANT OrderIndependent
CHECK_DEADLOCK FALSE
