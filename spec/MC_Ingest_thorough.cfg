SPECIFICATION Spec
CONSTANTS
  MaxChroms = 2
  MaxLen = 4
  MaxRecs = 1
INVARIANT RejectsExactlyOutOfChrom
INVARIANT RightPixelOnce
INVARIANT OrderIndependent
CHECK_DEADLOCK FALSE
