------------------------------- MODULE MC_Merge -------------------------------
(* Bounded instances:                                                            *)
(*  (a) breakpoints: ALL combined-index shapes (R rows, <= M records per row)    *)
(*      x ALL buffer sizes: the loop terminates without index error, the         *)
(*      partition is strictly increasing from 0, reaches the total, respects the *)
(*      buffer unless a single row is larger;                                    *)
(*  (b) content: ALL pairs of stores on NB bins (values <= MaxV) x ALL buffers:  *)
(*      merger output = MergeOf (exact per-pixel aggregate), sorted, for sum/max *)
(*  (c) pass structure: ALL (n, max_merge): first-pass groups partition the      *)
(*      chunks; the result equals aggregating everything at once.               *)
EXTENDS Merge, TLC
CONSTANTS R, M, MaxBuf, NB, MaxV, MaxChunks

VARIABLES pc, cnt, buf, ins, nchunks, mm
vars == <<pc, cnt, buf, ins, nchunks, mm>>

Positions == {p \in (0..(NB - 1)) \X (0..(NB - 1)) : p[1] <= p[2]}
StoreOf(f) == SetToSortSeq({<<p[1], p[2], f[p]>> : p \in {q \in Positions : f[q] # 0}}, PxLess)
Stores == {StoreOf(f) : f \in [Positions -> 0..MaxV]}

Init == pc = "start" /\ cnt = <<>> /\ buf = 1 /\ ins = <<>> /\ nchunks = 0 /\ mm = 0
PickIndex == /\ pc = "start" /\ \E c \in [1..R -> 0..M] : cnt' = c
             /\ \E b \in 1..MaxBuf : buf' = b
             /\ pc' = "index" /\ UNCHANGED <<ins, nchunks, mm>>
PickInputs == /\ pc = "start" /\ \E a \in Stores, b \in Stores : ins' = <<a, b>>
              /\ \E b \in 1..MaxBuf : buf' = b
              /\ pc' = "inputs" /\ UNCHANGED <<cnt, nchunks, mm>>
PickThird == /\ pc = "inputs" /\ \E c \in Stores : ins' = Append(ins, c)
             /\ pc' = "inputs3" /\ UNCHANGED <<cnt, buf, nchunks, mm>>
PickPass == /\ pc = "start" /\ \E n \in 1..MaxChunks, m \in 0..MaxChunks : nchunks' = n /\ mm' = m
            /\ pc' = "pass" /\ UNCHANGED <<cnt, buf, ins>>
\* unordered creation: chunks = a few stores in some order, max_merge small
PickChunks == /\ pc = "inputs3" /\ \E m \in 0..3 : mm' = m
              /\ pc' = "unordered" /\ UNCHANGED <<cnt, buf, ins, nchunks>>
Next == PickIndex \/ PickInputs \/ PickThird \/ PickPass \/ PickChunks
Spec == Init /\ [][Next]_vars

-----------------------------------------------------------------------------
CI == [i \in 1..(R + 1) |-> SumSeq(SubSeq(cnt, 1, i - 1))]     \* combined index of the row counts
Part == MergeBreakpoints(CI, buf)
BreakpointsOK == pc = "index" =>
  /\ \A k \in DOMAIN Part : Part[k] >= 0                        \* terminates, no index error
  /\ Part[1] = 0
  /\ \A k \in 1..(Len(Part) - 1) : Part[k] < Part[k + 1]        \* strictly increasing
  /\ CI[Part[Len(Part)] + 1] = CI[R + 1]                        \* every record is consumed
  /\ \A k \in 1..(Len(Part) - 1) :                              \* buffer respected unless one row is larger
        CI[Part[k + 1] + 1] - CI[Part[k] + 1] <= buf \/ Part[k + 1] = Part[k] + 1
\* documented: an epoch may be empty (the merger must cope; fix d60c399)
NoEmptyEpoch == pc = "index" =>
  \A k \in 1..(Len(Part) - 1) : CI[Part[k + 1] + 1] > CI[Part[k] + 1]

MergeExact == pc \in {"inputs", "inputs3"} =>
  /\ MergerOutput(ins, NB, buf, <<"sum">>) = MergeOf(ins, <<"sum">>)
  /\ MergerOutput(ins, NB, buf, <<"max">>) = MergeOf(ins, <<"max">>)
  /\ StrictlySorted(MergerOutput(ins, NB, buf, <<"sum">>))
\* order independence and associativity, as equalities of Layer D values
MergeAlgebra == pc = "inputs3" =>
  /\ MergeOf(<<ins[2], ins[3], ins[1]>>, <<"sum">>) = MergeOf(ins, <<"sum">>)
  /\ MergeOf(<<MergeOf(<<ins[1], ins[2]>>, <<"sum">>), ins[3]>>, <<"sum">>) = MergeOf(ins, <<"sum">>)
  /\ MergeOf(<<ins[1], MergeOf(<<ins[2], ins[3]>>, <<"sum">>)>>, <<"sum">>) = MergeOf(ins, <<"sum">>)

PassStructureOK == pc = "pass" =>
  (TwoPass(nchunks, mm) => GroupsPartition(FirstPassEdges(nchunks), nchunks))
\* the pinned tree: linspace(0, n, int(sqrt(n))) yields no group for n in {2, 3} (F10)
PassStructurePinned == pc = "pass" =>
  (TwoPass(nchunks, mm) => GroupsPartition(FirstPassEdgesPinned(nchunks), nchunks))
UnorderedExact == pc = "unordered" =>
  UnorderedCreate(ins, NB, buf, mm, <<"sum">>, FirstPassEdges) = AggregateAll(ins, <<"sum">>)
=============================================================================
