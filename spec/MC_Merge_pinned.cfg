SPECIFICATION Spec
CONSTANTS
  R = 4
  M = 3
  MaxBuf = 5
  NB = 2
  MaxV = 1
  MaxChunks = 12
INVARIANT PassStructurePinned
CHECK_DEADLOCK FALSE
