SPECIFICATION Spec
CONSTANTS
  R = 4
  M = 3
  MaxBuf = 5
  NB = 2
  MaxV = 1
  MaxChunks = 12
INVARIANT BreakpointsOK
INVARIANT MergeExact
INVARIANT MergeAlgebra
INVARIANT PassStructureOK
INVARIANT UnorderedExact
CHECK_DEADLOCK FALSE
