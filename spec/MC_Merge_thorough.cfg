SPECIFICATION Spec
CONSTANTS
  R = 5
  M = 3
  MaxBuf = 8
  NB = 2
  MaxV = 2
  MaxChunks = 30
INVARIANT BreakpointsOK
INVARIANT MergeExact
INVARIANT MergeAlgebra
INVARIANT PassStructureOK
INVARIANT UnorderedExact
CHECK_DEADLOCK FALSE
