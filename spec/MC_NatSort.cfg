SPECIFICATION Spec
CONSTANTS
  MaxNames = 3
  MaxLenName = 2
INVARIANT SortedRepaired
INVARIANT OrderLaws
CHECK_DEADLOCK FALSE
