------------------------------ MODULE MC_NatSort ------------------------------
(* ALL sequences of up to MaxNames names over a small alphabet (a letter, an     *)
(* underscore, the digits 0 1 2, lengths <= MaxLenName) that are pairwise        *)
(* comparable: the repaired sort yields the natural order; the pinned one        *)
(* (zip truncation) does not - TLC refutes SortedPinned.                        *)
EXTENDS NatSort, TLC
CONSTANTS MaxNames, MaxLenName
Alphabet == {99, 95, 48, 49, 50}
NameSet == UNION {[1..n -> Alphabet] : n \in 1..MaxLenName}
VARIABLES names
Init == names = <<>>
Add == /\ Len(names) < MaxNames
       /\ \E s \in NameSet : (\A k \in DOMAIN names : Comparable(names[k], s)) /\ names' = Append(names, s)
Spec == Init /\ [][Add]_names
SortedRepaired == InNaturalOrder(ArgNatSortA(names)) /\ IsPermutationOf(ArgNatSortA(names), names)
SortedPinned == InNaturalOrder(ArgNatSortPinned(names))
\* NatLess is a strict weak order on comparable names (needed for "the" natural order to mean something)
OrderLaws == \A i, j \in DOMAIN names :
               /\ ~(NatLess(names[i], names[j]) /\ NatLess(names[j], names[i]))
               /\ (NatLess(names[i], names[j]) \/ NatLess(names[j], names[i]) \/ NatEq(names[i], names[j]))
=============================================================================
