SPECIFICATION Spec
CONSTANTS
  MaxNames = 2
  MaxLenName = 3
INVARIANT SortedPinned
CHECK_DEADLOCK FALSE
