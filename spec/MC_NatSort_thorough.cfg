SPECIFICATION Spec
CONSTANTS
  MaxNames = 3
  MaxLenName = 3
INVARIANT SortedRepaired
INVARIANT OrderLaws
CHECK_DEADLOCK FALSE
