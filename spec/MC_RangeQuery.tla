----------------------------- MODULE MC_RangeQuery -----------------------------
(* Bounded instance: for ALL stores on N bins with values in Vals, ALL windows,  *)
(* BOTH engines and ALL span partitions, the algorithm of the implementation     *)
(* (Layer A) returns exactly the sub-block of the full matrix (Layer D), each    *)
(* element once; the direct engine returns the stored records in storage order; *)
(* balanced reads pick row weights from the row range and column weights from   *)
(* the column range.                                                             *)
EXTENDS RangeQuery, TLC

CONSTANTS N, Vals, Mode, WVals   \* WVals: weight exponents (exponents, -1 = NaN); {} = no weights

VARIABLES pc, c, w, form, res, W

vars == <<pc, c, w, form, res, W>>
WSet3 == {0, 1, -1}   \* cfg files cannot spell -1

Positions ==
  IF Mode = "symm" THEN {p \in (0..(N - 1)) \X (0..(N - 1)) : p[1] <= p[2]}
  ELSE (0..(N - 1)) \X (0..(N - 1))
StoreOf(f) ==
  [n |-> N, mode |-> Mode,
   px |-> SetToSortSeq({<<p[1], p[2], f[p]>> : p \in {q \in Positions : f[q] # 0}}, PxLess)]
Windows ==
  {<<a, b, x, y>> : a \in 0..N, b \in 0..N, x \in 0..N, y \in 0..N}
ValidWindows == {v \in Windows : v[1] <= v[2] /\ v[3] <= v[4]}

Init == /\ pc = "store" /\ c = [n |-> N, mode |-> Mode, px |-> <<>>]
        /\ w = <<0, 0, 0, 0>> /\ form = "none" /\ res = <<>> /\ W = <<>>

PickStore == /\ pc = "store"
             /\ \E f \in [Positions -> Vals \cup {0}] : c' = StoreOf(f)
             /\ \E ws \in (IF WVals = {} THEN {<<>>} ELSE [1..N -> WVals]) : W' = ws
             /\ pc' = "window" /\ UNCHANGED <<w, form, res>>

PickWindow == /\ pc = "window"
              /\ \E v \in ValidWindows : w' = v
              /\ \E fm \in {"matrix", "pixels"} : form' = fm
              /\ pc' = "query" /\ UNCHANGED <<c, res, W>>

\* one edge sequence per box, chosen freely
DoQuery ==
  /\ pc = "query"
  /\ IF form = "pixels" \/ Mode = "square"
       THEN \E e \in SpanChoices(c, w) : res' = DirectQuery(c, w, e)
       ELSE LET bx == ChooseBoxes(w) IN
            IF Len(bx) = 1
              THEN \E e1 \in SpanChoices(c, bx[1].box) : res' = FillLowerQuery(c, w, <<e1>>)
              ELSE \E e1 \in SpanChoices(c, bx[1].box), e2 \in SpanChoices(c, bx[2].box) :
                     res' = FillLowerQuery(c, w, <<e1, e2>>)
  /\ pc' = "done" /\ UNCHANGED <<c, w, form, W>>

Next == PickStore \/ PickWindow \/ DoQuery
Spec == Init /\ [][Next]_vars

-----------------------------------------------------------------------------
NeverValueError ==
  pc = "query" => \A k \in DOMAIN ChooseBoxes(w) : ChooseBoxes(w)[k].tr \in BOOLEAN
\* the boxes tile the window (after undoing the transposition) - design-level sanity
BlockExactInv ==
  (pc = "done" /\ form = "matrix") =>
     /\ Range(res) = SubBlockRecords(c, w)
     /\ NoDuplicate(res)
PixelOrderInv ==
  (pc = "done" /\ form = "pixels") => res = PixelsInWindow(c, w)
SquareOrderInv ==
  (pc = "done" /\ Mode = "square") => res = PixelsInWindow(c, w)
\* C12: the implementation's weight selection = Layer D
WeightsInv ==
  (pc = "done" /\ form = "matrix" /\ WVals # {}) =>
     \A d \in BOOLEAN :
        Range(ApplyWeights(res, w, W, d)) = BalancedRecords(c, w, W, d)
=============================================================================
