SPECIFICATION Spec
CONSTANTS
  N = 3
  Vals = {1}
  Mode = "square"
  WVals = {}
INVARIANT BlockExactInv
INVARIANT PixelOrderInv
INVARIANT SquareOrderInv
CHECK_DEADLOCK FALSE
