SPECIFICATION Spec
CONSTANTS
  N = 3
  Vals = {1, 2}
  Mode = "symm"
  WVals = {}
INVARIANT NeverValueError
INVARIANT BlockExactInv
INVARIANT PixelOrderInv
CHECK_DEADLOCK FALSE
