SPECIFICATION Spec
CONSTANTS
  N = 4
  Vals = {1}
  Mode = "symm"
  WVals = {}
INVARIANT NeverValueError
INVARIANT BlockExactInv
INVARIANT PixelOrderInv
CHECK_DEADLOCK FALSE
