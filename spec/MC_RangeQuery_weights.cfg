SPECIFICATION Spec
CONSTANTS
  N = 3
  Vals = {1}
  Mode = "symm"
  WVals <- WSet3
INVARIANT BlockExactInv
INVARIANT WeightsInv
CHECK_DEADLOCK FALSE
