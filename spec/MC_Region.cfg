SPECIFICATION Spec
INVARIANT ArithmeticAgrees
INVARIANT AlgorithmIsDenotation
INVARIANT UnknownUnitIsNotWellFormed
CHECK_DEADLOCK FALSE
