------------------------------- MODULE MC_Region -------------------------------
(* ALL numerals with <= 2 integer digits (optionally a comma), <= 4 fractional    *)
(* digits over {0,1,5} and every unit spelling: the digit-sequence denotation     *)
(* agrees with integer arithmetic, the repaired algorithm returns the denotation  *)
(* whenever there is one, and truncates otherwise.                               *)
EXTENDS Region, TLC
VARIABLES n
Units == {<<>>, <<107>>, <<75>>, <<107, 98>>, <<75, 66>>, <<77>>, <<109, 98>>, <<71>>, <<103, 66>>, <<120>>}
IPs == {<<a>> : a \in {48, 49, 57}} \cup {<<a, b>> : a \in {49, 57}, b \in {48, 53}} \cup {<<49, Comma, 48>>}
FPs == UNION {[1..m -> {48, 49, 53}] : m \in 0..4}
Init == n \in {[ip |-> i, point |-> p, fp |-> f, unit |-> u] : i \in IPs, p \in BOOLEAN, f \in FPs, u \in Units}
Spec == Init /\ [][UNCHANGED n]_n
Pow10(e) == IF e = 0 THEN 1 ELSE IF e = 3 THEN 1000 ELSE IF e = 6 THEN 1000000 ELSE 1000000000
\* arithmetic value * 10^d (to stay in integers): (I * 10^d + F) * 10^e
ArithmeticAgrees ==
  (WellFormedNumeral(n) /\ Denotes(n) # <<>> /\ UnitExp(n.unit) <= 6) =>
     LET d == Len(n.fp)
         I == DigitsToNat(StripCommas(n.ip))
         F == DigitsToNat(n.fp)
         e == UnitExp(n.unit)
     IN IF d <= e THEN DigitsToNat(Denotes(n)) = (I * (10 ^ d) + F) * (10 ^ (e - d))
        ELSE DigitsToNat(Denotes(n)) * (10 ^ (d - e)) = I * (10 ^ d) + F
AlgorithmIsDenotation == (WellFormedNumeral(n) /\ Denotes(n) # <<>>) => ParseHumanizedA(n) = Denotes(n)
UnknownUnitIsNotWellFormed == UnitExp(n.unit) = -1 => ~WellFormedNumeral(n)
=============================================================================
