SPECIFICATION Spec
CONSTANTS
  NB = 4
  MaxPx = 3
INVARIANT AnnotationOfOwnBins
INVARIANT SliceAsArray
CHECK_DEADLOCK FALSE
