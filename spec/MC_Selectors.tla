------------------------------ MODULE MC_Selectors ------------------------------
(* ALL pixel sequences of <= MaxPx pixels over NB bins (any order, repeated bins)  *)
(* x ALL contiguous parts [a,b) of the bin table that contain the needed bins:     *)
(* the implementation's window/positional-take strategy attaches to every pixel    *)
(* the attributes of its own two bins (few pixels -> window path, many pixels ->   *)
(* whole-table path, empty frame);                                               *)
(* ALL slice spellings with bounds in [-n, n] on a table of n rows: labels = row   *)
(* numbers and rows = stored rows.                                               *)
EXTENDS Selectors, TLC
CONSTANTS NB, MaxPx
VARIABLES pc, pixels, part, s
vars == <<pc, pixels, part, s>>
Bins == [b \in 1..NB |-> <<b * 10, b * 10 + 1>>]         \* distinguishable attributes per bin
Init == pc = "start" /\ pixels = <<>> /\ part = <<0, NB>> /\ s = [kind |-> "slice", a |-> <<>>, b |-> <<>>]
AddPixel == /\ pc \in {"start", "px"} /\ Len(pixels) < MaxPx
            /\ \E i \in 0..(NB - 1), j \in 0..(NB - 1) : pixels' = Append(pixels, <<100 + Len(pixels) * 3, i, j, 7>>)
            /\ pc' = "px" /\ UNCHANGED <<part, s>>
PickPart == /\ pc \in {"start", "px"}
            /\ \E a \in 0..NB, b \in 0..NB : a < b /\ PartSuffices(pixels, <<a, b>>) /\ part' = <<a, b>>
            /\ pc' = "part" /\ UNCHANGED <<pixels, s>>
Opt == {<<>>} \cup {<<x>> : x \in (-NB)..NB}
PickSlice == /\ pc = "start"
             /\ \/ \E a \in Opt, b \in Opt : s' = [kind |-> "slice", a |-> a, b |-> b]
                \/ \E k \in (-NB)..(NB - 1) : s' = [kind |-> "scalar", a |-> <<k>>, b |-> <<>>]
             /\ pc' = "slice" /\ UNCHANGED <<pixels, part>>
Next == AddPixel \/ PickPart \/ PickSlice
Spec == Init /\ [][Next]_vars
AnnotationOfOwnBins == pc = "part" => AnnotateA(pixels, Bins, part) = Annotate(pixels, Bins)
\* the selector's normalisation gives the array's selection whenever the spelling denotes a well-formed range
SliceAsArray == pc = "slice" =>
   LET n == ProcessSlice(s, NB) IN
     (n[1] >= 0 /\ n[1] <= n[2]) => {k \in 0..(NB - 1) : n[1] <= k /\ k < n[2]} = ArraySelection(s, NB)
=============================================================================
