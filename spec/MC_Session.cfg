SPECIFICATION Spec
CONSTANTS
  ColNames = {"weight", "x"}
  Tags = {1, 2}
  NameVecs = 2
  MaxOps = 3
INVARIANT TypeOK
PROPERTY NoSilentOverwrite
PROPERTY LiveNamesFollow
PROPERTY ColumnsPersist
PROPERTY ReadOnlyModes
PROPERTY FrameCondition
PROPERTY ExitTellsTruth
PROPERTY ComputedOnlyByBalancing
CHECK_DEADLOCK FALSE
