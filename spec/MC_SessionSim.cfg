SPECIFICATION SimSpec
CONSTANTS
  ColNames = {"weight", "x", "KR"}
  Tags = {1, 2, 3}
  NameVecs = 2
  MaxOps = 6
INVARIANT Emit
INVARIANT TypeOK
CHECK_DEADLOCK FALSE
