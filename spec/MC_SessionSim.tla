----------------------------- MODULE MC_SessionSim -----------------------------
(* spec -> code for the mutable collection: TLC's random simulation generates     *)
(* behaviours of Session!Spec (histories of MaxOps operations); each finished      *)
(* behaviour is printed as one JSON line - the operations with their arguments -   *)
(* and replayed into the real collection by the driver ss.history, whose recorded  *)
(* states are validated against the same model (SessionTrace).                    *)
EXTENDS Session, Json, TLC
VARIABLE hist
simvars == <<S, last, nops, hist>>
SimInit == Init /\ hist = <<>>
SimNext == Next /\ hist' = Append(hist, last')
SimSpec == SimInit /\ [][SimNext]_simvars
Emit == nops < MaxOps \/ PrintT(ToJson(hist))
=============================================================================
