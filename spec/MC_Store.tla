------------------------------- MODULE MC_Store -------------------------------
(* Bounded instance: ALL histories of up to MaxOps operations                     *)
(* create(w|a) / cp / mv / ln (hard) / ln (soft -> soft or external) / overwrite  *)
(* over two files with paths of depth <= 2.  The previous state and the last      *)
(* operation are history variables used only by the properties.                  *)
EXTENDS Store, TLC
CONSTANTS MaxOps, MaxDepth

Names2 == <<"a", "b">>      \* cfg files cannot spell tuples
Names3 == <<"a", "b", "n">>
VARIABLES S, prev, last, n
vars == <<S, prev, last, n>>

RECURSIVE PathsUpTo(_)
PathsUpTo(d) == IF d = 0 THEN {<<>>} ELSE PathsUpTo(d - 1) \cup {Append(p, nm) : p \in {q \in PathsUpTo(d - 1) : Len(q) = d - 1}, nm \in Names}
U == PathsUpTo(MaxDepth)

NoOp == [op |-> "none"]
Init == S = EmptyStore /\ prev = EmptyStore /\ last = NoOp /\ n = 0

DoCreate == \E f \in Files, p \in U, c \in {1, 2}, m \in {"w", "a"} :
   /\ CreateOk(S, f, p, m)
   /\ S' = Create(S, f, p, c, m)
   /\ last' = [op |-> "create", f |-> f, p |-> p, c |-> c, mode |-> m, ok |-> TRUE]
DoCopy == \E kind \in {"cp", "mv", "ln", "lns"}, sf \in Files, df \in Files, sp \in U, dp \in U, ow \in BOOLEAN :
   /\ InDomain(S, kind, sf, sp, df, dp, ow)
   /\ S' = Copy(S, kind, sf, sp, df, dp, ow)
   /\ last' = [op |-> kind, sf |-> sf, sp |-> sp, df |-> df, dp |-> dp, ow |-> ow,
               ok |-> CopyOk(S, kind, sf, sp, df, dp, ow)]
Next == /\ n < MaxOps /\ n' = n + 1 /\ prev' = S /\ (DoCreate \/ DoCopy)
Spec == Init /\ [][Next]_vars

-----------------------------------------------------------------------------
IsPrefixOf(f, p) == f = last.f /\ Len(p) >= Len(last.p) /\ SubSeq(p, 1, Len(last.p)) = last.p
IsCopyOp == last.op \in {"cp", "mv", "ln", "lns"}
Succeeded == last.op # "none" /\ last.ok
\* C15: the destination reads identically to the source
CopyFaithful ==
   /\ (last.op \in {"cp", "ln"} /\ Succeeded) => ContentAt(S, last.df, last.dp) = ContentAt(prev, last.sf, last.sp)
   \* a soft / external link is symbolic: it reads as whatever the source path denotes NOW
   \* (stated when the destination's parents are ordinary groups: through an external link the new link
   \* would live in - and resolve relative to - the other file)
   /\ (last.op = "lns" /\ Succeeded /\ ContentAt(S, last.df, last.dp) # -1
       /\ \A k \in 1..(Len(last.dp) - 1) : LinkAt(S, last.df, SubSeq(last.dp, 1, k)).k = "h") =>
          ContentAt(S, last.df, last.dp) = ContentAt(S, last.sf, last.sp)
MoveFaithful == (last.op = "mv" /\ Succeeded) =>
   /\ ContentAt(S, last.df, last.dp) = ContentAt(prev, last.sf, last.sp)
   /\ LinkAt(S, last.sf, last.sp).k = "none"                               \* source gone only for move
SourceKept == (IsCopyOp /\ Succeeded /\ last.op # "mv" /\ ~last.ow /\ ContentAt(prev, last.sf, last.sp) # -1) =>
   ContentAt(S, last.sf, last.sp) = ContentAt(prev, last.sf, last.sp)
\* an operation that fails changes nothing (except that the destination file may have been created or,
\* with overwrite, truncated)
FailureChangesNothing == (IsCopyOp /\ ~last.ok) =>
   \/ S = prev
   \/ (last.op \in {"ln", "mv"} /\ \A f \in Files, p \in U : ContentAt(S, f, p) \in {ContentAt(prev, f, p), 0})   \* only empty parent groups appeared
   \/ (prev.root[last.df] = 0 \/ last.ow) /\ \A p \in U : ContentAt(S, last.df, p) = (IF Len(p) = 0 THEN 0 ELSE -1)
\* frame condition at the object level: no existing object changes its content and no existing link is
\* changed or removed - except the one link named by the operation (destination of create, source of mv),
\* the root content for create at the root, and everything in a truncated file
Truncates == (last.op = "create" /\ last.mode = "w") \/ (IsCopyOp /\ last.ow)
FrameObjects == (last.op # "none" /\ ~Truncates) =>
   \A o \in DOMAIN prev.objs :
      /\ \/ S.objs[o].c = prev.objs[o].c
         \/ (last.op = "create" /\ Len(last.p) = 0 /\ o = prev.root[last.f])
         \/ (last.op = "cp" /\ last.sf # last.df /\ Len(last.dp) = 0 /\ o = prev.root[last.df])   \* copy onto an empty root
      /\ \A nm \in Names : prev.objs[o].kids[nm].k # "none" =>
            \/ S.objs[o].kids[nm] = prev.objs[o].kids[nm]
            \/ (last.op = "create" /\ Len(last.p) > 0 /\ nm = LastName(last.p) /\ o = Resolve(prev, last.f, Parent(last.p)))
            \/ (last.op = "mv" /\ last.ok /\ nm = LastName(last.sp) /\ o = Resolve(prev, last.sf, Parent(last.sp)))
\* (that append-mode creation leaves other collections alone is FrameObjects: only the link named by the
\* operation changes; stated on objects because paths may alias through links)
\* write mode replaces the file
WriteModeReplaces == (last.op = "create" /\ last.mode = "w") =>
   \A p \in U : ContentAt(S, last.f, p) = (IF p = last.p THEN last.c ELSE IF Len(p) < Len(last.p) /\ SubSeq(last.p, 1, Len(p)) = p THEN 0 ELSE -1)
RecreateReplaces == (last.op = "create") => ContentAt(S, last.f, last.p) = last.c
\* listing = exactly the recognised paths (by definition of the observers) and recognition never "raises"
\* for unresolvable paths: ContentAt = -1 is an answer
ListingIsRecognised == \A f \in Files : ListingOf(S, f, U) = {p \in U : ContentAt(S, f, p) > 0}
=============================================================================
