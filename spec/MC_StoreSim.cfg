SPECIFICATION SimSpec
CONSTANTS
  Files = {"f1", "f2"}
  NameSeq <- Names2
  MaxOps = 6
  MaxDepth = 2
INVARIANT Emit
INVARIANT CopyFaithful
INVARIANT MoveFaithful
INVARIANT FrameObjects
CHECK_DEADLOCK FALSE
