------------------------------ MODULE MC_StoreSim ------------------------------
(* spec -> code: TLC generates behaviours of the store model by random simulation   *)
(* (tlc -simulate); every behaviour that reaches MaxOps operations is printed as     *)
(* one JSON line (the sequence of operations with their arguments) and replayed      *)
(* into the real code by the driver st.history; the recorded file states are then    *)
(* validated against the same model (StoreTrace).  Uninteresting failures (missing   *)
(* source) are thinned out so that the walks consist mostly of operations that act.  *)
EXTENDS MC_Store, Json
VARIABLE hist
simvars == <<S, prev, last, n, hist>>
SimInit == Init /\ hist = <<>>
Acts(op) ==
  IF op.op = "create" THEN TRUE
  ELSE IF op.ok THEN TRUE
  ELSE IF S.root[op.sf] = 0 THEN FALSE
  ELSE IF op.ow THEN op.sf = op.df /\ op.op = "cp" /\ Resolve(S, op.sf, op.sp) # 0   \* overwrite within one file is refused
  ELSE op.op \in {"cp", "ln"} /\ NameTaken(S, op.df, op.dp) /\ Resolve(S, op.sf, op.sp) # 0   \* destination exists
SimNext == Next /\ Acts(last') /\ hist' = Append(hist, last')
SimSpec == SimInit /\ [][SimNext]_simvars
Emit == n < MaxOps \/ PrintT(ToJson(hist))
=============================================================================
