SPECIFICATION SimSpec
CONSTANTS
  Files = {"f1", "f2"}
  NameSeq <- Names3
  MaxOps = 8
  MaxDepth = 2
INVARIANT Emit
INVARIANT CopyFaithful
INVARIANT MoveFaithful
INVARIANT FrameObjects
CHECK_DEADLOCK FALSE
