SPECIFICATION Spec
CONSTANTS
  Files = {"f1", "f2"}
  NameSeq <- Names2
  MaxOps = 3
  MaxDepth = 2
INVARIANT CopyFaithful
INVARIANT MoveFaithful
INVARIANT SourceKept
INVARIANT FailureChangesNothing
INVARIANT FrameObjects
INVARIANT WriteModeReplaces
INVARIANT RecreateReplaces
INVARIANT ListingIsRecognised
CHECK_DEADLOCK FALSE
