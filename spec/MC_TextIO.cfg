SPECIFICATION Spec
CONSTANTS
  MaxCol = 6
  NFields = 5
INVARIANT LayoutHonoured
CHECK_DEADLOCK FALSE
