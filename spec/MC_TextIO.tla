------------------------------- MODULE MC_TextIO -------------------------------
(* ALL layouts of k named fields over input columns 0..MaxCol (every injective     *)
(* choice, every order): the repaired hand-over to pandas reads every name from    *)
(* the column the user asked for; the pinned hand-over does so only for monotone   *)
(* layouts (refuted: defect F7).                                                  *)
EXTENDS TextIO, TLC
CONSTANTS MaxCol, NFields
VARIABLES cols
NamesAll == <<"chrom1", "pos1", "chrom2", "pos2", "v1", "v2">>
Names == SubSeq(NamesAll, 1, NFields)
Init == cols \in {f \in [1..NFields -> 0..MaxCol] : \A a, b \in 1..NFields : f[a] = f[b] => a = b}
Spec == Init /\ [][UNCHANGED cols]_cols
LayoutHonoured == AsSet(AssignNames(Names, cols)) = AsSet(Intended(Names, cols))
LayoutHonouredPinned == AsSet(PandasAssigns(Names, cols)) = AsSet(Intended(Names, cols))
=============================================================================
