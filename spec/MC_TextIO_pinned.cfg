SPECIFICATION Spec
CONSTANTS
  MaxCol = 6
  NFields = 5
INVARIANT LayoutHonouredPinned
CHECK_DEADLOCK FALSE
