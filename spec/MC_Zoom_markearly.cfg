SPECIFICATION Spec
CONSTANTS
  MarkEarly = TRUE
  MaxRes = 4
  MaxDepth = 4
INVARIANT LevelsAreDirectCoarsenings
INVARIANT NeverReadsUnfinished
INVARIANT RecognisedOnlyWhenComplete
INVARIANT AtMostOnePartial
INVARIANT PrefixShape
INVARIANT RefusedWritesNothing
INVARIANT RefusalIsNonDerivability
INVARIANT FinishedIsComplete
PROPERTY Terminates
CHECK_DEADLOCK FALSE
