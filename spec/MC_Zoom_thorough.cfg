SPECIFICATION Spec
CONSTANTS
  MarkEarly = FALSE
  MaxRes = 10
  MaxDepth = 6
INVARIANT LevelsAreDirectCoarsenings
INVARIANT NeverReadsUnfinished
INVARIANT RecognisedOnlyWhenComplete
INVARIANT AtMostOnePartial
INVARIANT PrefixShape
INVARIANT RefusedWritesNothing
INVARIANT RefusalIsNonDerivability
INVARIANT FinishedIsComplete
PROPERTY Terminates
CHECK_DEADLOCK FALSE
