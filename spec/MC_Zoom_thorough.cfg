SPECIFICATION Spec
CONSTANTS
  MarkEarly = FALSE
  MaxRes = 12
  MaxDepth = 8
INVARIANT LevelsAreDirectCoarsenings
INVARIANT NeverReadsUnfinished
INVARIANT RecognisedOnlyWhenComplete
INVARIANT AtMostOnePartial
INVARIANT PrefixShape
INVARIANT RefusedWritesNothing
INVARIANT RefusalIsNonDerivability
INVARIANT FinishedIsComplete
PROPERTY Terminates
CHECK_DEADLOCK FALSE
