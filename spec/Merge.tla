-------------------------------- MODULE Merge --------------------------------
(* k-way merge of collections and unordered ingestion (properties C06, C07).    *)
(*                                                                             *)
(* Layer A transcribes src/cooler/_reduce.py and create/_create.py:             *)
(*   MergeBreakpoints   merge_breakpoints: bisect loop over the combined index  *)
(*   MergerOutput       CoolerMerger.__iter__: one epoch per partition step,    *)
(*                      slices [start_k, stop_k) of every input, concat, group, *)
(*                      aggregate; epochs without records are skipped           *)
(*                      (fix d60c399; the pinned tree raised instead)           *)
(*   FirstPassEdges     create_from_unordered: linspace(0, n, m) grouping of    *)
(*                      the temporary chunk coolers when n > max_merge > 0      *)
(*   UnorderedCreate    sort pass (one temp collection per chunk) + 1 or 2      *)
(*                      merge passes                                           *)
(* Layer D: MergeOf = per-pixel aggregate of the multiset union of all inputs.  *)
EXTENDS CoolerData

-----------------------------------------------------------------------------
(* Layer D *)
Keys(inputs) == UNION {{<<p[1], p[2]>> : p \in Range(inputs[k])} : k \in DOMAIN inputs}
\* values of column v (3 = first value column) at pixel key over all inputs, as a sequence in input order
RECURSIVE ValuesAt(_, _, _, _)
ValuesAt(inputs, k, key, v) ==
  IF k > Len(inputs) THEN <<>>
  ELSE LET hits == SelectSeq(inputs[k], LAMBDA p : p[1] = key[1] /\ p[2] = key[2])
       IN [m \in DOMAIN hits |-> hits[m][v]] \o ValuesAt(inputs, k + 1, key, v)
AggOf(vals, f) ==
  IF f = "sum" THEN SumSeq(vals)
  ELSE IF f = "max" THEN Max(Range(vals))
  ELSE IF f = "min" THEN Min(Range(vals))
  ELSE IF f = "first" THEN vals[1]
  ELSE IF f = "count" THEN Len(vals)
  ELSE -999999
\* aggs: sequence of aggregate names, one per value column
MergedRecord(inputs, key, aggs) ==
  <<key[1], key[2]>> \o [c \in DOMAIN aggs |-> AggOf(ValuesAt(inputs, 1, key, 2 + c), aggs[c])]
MergeOf(inputs, aggs) ==
  LET ks == SetToSortSeq(Keys(inputs), LAMBDA a, b : a[1] < b[1] \/ (a[1] = b[1] /\ a[2] < b[2]))
  IN [m \in DOMAIN ks |-> MergedRecord(inputs, ks[m], aggs)]
\* aggregation of one bag of records given as a single sequence (unordered ingestion of chunks)
AggregateAll(chunks, aggs) == MergeOf(chunks, aggs)

-----------------------------------------------------------------------------
(* Layer A: merge_breakpoints *)
Bin1Column(px) == [k \in DOMAIN px |-> px[k][1]]
OffsetsOf(px, n) == RLIndex(Bin1Column(px), n)
CombinedIndex(inputs, n) == [i \in 1..(n + 1) |-> SumSeq([k \in DOMAIN inputs |-> OffsetsOf(inputs[k], n)[i]])]
\* bisect_right(ci, x, lo) on a non-decreasing sequence, 0-based result
BisectRight(ci, x, lo) == Max2(lo, Cardinality({k \in DOMAIN ci : ci[k] <= x}))
\* the loop; `part` is the partition built so far (0-based bin ids); fuel bounds the recursion
RECURSIVE MBLoop(_, _, _, _, _, _)
MBLoop(ci, buf, lo, start, part, fuel) ==
  LET nnz == ci[Len(ci)]
      h0 == BisectRight(ci, Min2(start + buf, nnz), lo) - 1
      hi == IF h0 = lo THEN h0 + 1 ELSE h0
  IN IF fuel = 0 THEN part \o <<-1>>                 \* -1 marks non-termination
     ELSE IF hi + 1 > Len(ci) THEN part \o <<-2>>     \* -2 marks an index error
     ELSE IF ci[hi + 1] = nnz THEN Append(part, hi)
     ELSE MBLoop(ci, buf, hi, ci[hi + 1], Append(part, hi), fuel - 1)
MergeBreakpoints(ci, buf) == MBLoop(ci, buf, 0, 0, <<0>>, Len(ci) + 2)

\* CoolerMerger.__iter__
RowsBetween(px, a, b) == SelectSeq(px, LAMBDA p : a <= p[1] /\ p[1] < b)
EpochRecords(inputs, a, b) == [k \in DOMAIN inputs |-> RowsBetween(inputs[k], a, b)]
EpochEmpty(inputs, a, b) == \A k \in DOMAIN inputs : Len(RowsBetween(inputs[k], a, b)) = 0
RECURSIVE EpochsFrom(_, _, _, _)
EpochsFrom(inputs, part, m, aggs) ==
  IF m >= Len(part) THEN <<>>
  ELSE (IF EpochEmpty(inputs, part[m], part[m + 1]) THEN <<>>
        ELSE MergeOf(EpochRecords(inputs, part[m], part[m + 1]), aggs))
       \o EpochsFrom(inputs, part, m + 1, aggs)
MergerOutput(inputs, n, buf, aggs) ==
  EpochsFrom(inputs, MergeBreakpoints(CombinedIndex(inputs, n), buf), 1, aggs)

-----------------------------------------------------------------------------
(* Layer A: unordered creation *)
ISqrt(n) == CHOOSE r \in 0..n : r * r <= n /\ (r + 1) * (r + 1) > n
\* np.linspace(0, n, m, dtype=int): m points; the pinned tree uses m = int(sqrt(n))
Linspace(n, m) == IF m = 1 THEN <<0>> ELSE [k \in 1..m |-> ((k - 1) * n) \div (m - 1)]
FirstPassEdgesPinned(n) == Linspace(n, ISqrt(n))
\* after "fix: ... first merge pass": int(sqrt(n)) groups need int(sqrt(n)) + 1 edges
FirstPassEdges(n) == Linspace(n, ISqrt(n) + 1)
TwoPass(n, maxmerge) == n > maxmerge /\ maxmerge > 0
\* groups of chunk indices (1-based) merged in the first pass
Groups(edges) == [g \in 1..(Len(edges) - 1) |-> (edges[g] + 1)..edges[g + 1]]
GroupsPartition(edges, n) ==
  /\ Len(edges) >= 2 /\ edges[1] = 0 /\ edges[Len(edges)] = n
  /\ \A g \in 1..(Len(edges) - 1) : edges[g] <= edges[g + 1]
SubSeqOfSet(s, S) == [m \in 1..Cardinality(S) |-> s[CHOOSE x \in S : Cardinality({y \in S : y < x}) = m - 1]]
\* result of unordered creation: every chunk becomes a temporary collection (already sorted and
\* duplicate-free per chunk); they are merged in one pass, or group-wise and then once more
UnorderedCreate(chunks, n, buf, maxmerge, aggs, edgesOf(_)) ==
  IF TwoPass(Len(chunks), maxmerge)
    THEN LET e == edgesOf(Len(chunks))
             firsts == [g \in 1..(Len(e) - 1) |-> MergerOutput(SubSeqOfSet(chunks, Groups(e)[g]), n, buf, aggs)]
         IN MergerOutput(firsts, n, buf, aggs)
    ELSE MergerOutput(chunks, n, buf, aggs)

-----------------------------------------------------------------------------
(* value fit (C07: a stored value is never silently different from the exact aggregate) *)
\* TLC integers are 32-bit: for 32-bit (and wider) columns every value the harness can send fits
Fits(v, bits) == bits >= 31 \/ (-(2 ^ (bits - 1)) <= v /\ v < 2 ^ (bits - 1))
FitsUnsigned(v, bits) == bits >= 31 \/ (0 <= v /\ v < 2 ^ bits)
=============================================================================
