------------------------------ MODULE MergeTrace ------------------------------
(* Trace specification for merging (C07) and unordered ingestion (C06).         *)
EXTENDS Merge, TraceKit

VARIABLE l

All(s, P(_)) == \A k \in DOMAIN s : P(s[k])
RECURSIVE SumCol(_, _)
SumCol(inputs, v) == IF Len(inputs) = 0 THEN 0
                     ELSE SumSeq([k \in DOMAIN Head(inputs) |-> Head(inputs)[k][v]]) + SumCol(Tail(inputs), v)
AllFit(recs, bits, unsigned) ==
  \A k \in DOMAIN recs : \A c \in 3..Len(recs[k]) :
     IF unsigned THEN FitsUnsigned(recs[k][c], bits) ELSE Fits(recs[k][c], bits)

(* mg.merge: merge_coolers / cooler merge on real files; flat or nested *)
MergeClauses(e) ==
  LET want == MergeOf(e.case.inputs, e.case.aggs)
      fits == AllFit(want, e.case.bits, e.case.unsigned)
  IN
  IF e.obs.err # ""
  THEN << <<"neverSilentlyDifferent:errorOnlyIfUnfit", ~fits>> >>      \* an error is right only when a value does not fit
  ELSE
  << <<"pixelwiseExact", e.obs.px = want>>,
     <<"neverSilentlyDifferent", fits>>,                               \* a value that does not fit must be an error
     <<"sumOfTotals", (e.case.aggs[1] # "sum") \/ e.obs.sum = SumCol(e.case.inputs, 3)>> >>
  \o CSRClauses(e.obs.raw)

(* mg.incompat: inputs that differ in bin table, resolution, chromosome sizes or storage mode *)
IncompatClauses(e) ==
  << <<"incompatibleRefused", e.obs.err = "ValueError">>,
     <<"nothingWritten", ~e.obs.out_is_cooler>> >>

(* mg.breakpoints: merge_breakpoints on families of row indexes *)
BreakpointClauses(e) ==
  LET n == Len(e.case.idx[1]) - 1
      ci == [i \in 1..(n + 1) |-> SumSeq([k \in DOMAIN e.case.idx |-> e.case.idx[k][i]])]
      part == e.obs.part
      buf == e.case.buf
  IN
  << <<"increasing", part[1] = 0 /\ \A k \in 1..(Len(part) - 1) : part[k] < part[k + 1]>>,
     <<"inRange", \A k \in DOMAIN part : part[k] >= 0 /\ part[k] <= n>>,
     <<"reachesNnz", ci[part[Len(part)] + 1] = ci[n + 1]>>,
     <<"boundRespected", \A k \in 1..(Len(part) - 1) :
          ci[part[k + 1] + 1] - ci[part[k] + 1] <= buf \/ part[k + 1] = part[k] + 1>>,
     <<"cumRecords", e.obs.cum = [k \in DOMAIN part |-> ci[part[k] + 1]]>>,
     <<"drift:breakpointsAsModel", part = MergeBreakpoints(ci, buf)>> >>

(* mg.unordered: create_cooler(ordered=False) from chunks in arbitrary order *)
UnorderedClauses(e) ==
  LET bits == IF "bits" \in DOMAIN e.case THEN e.case.bits ELSE 64
      fits == AllFit(AggregateAll(e.case.chunks, e.case.aggs), bits, FALSE)
  IN
  IF e.obs.err # "" THEN (IF bits < 64 THEN << <<"neverSilentlyDifferent:errorOnlyIfUnfit", ~fits>> >>
                          ELSE << <<"completes", FALSE>> >>)
  ELSE
  << <<"equalsAggregate", e.obs.px = AggregateAll(e.case.chunks, e.case.aggs)>>,
     <<"neverSilentlyDifferent", fits>>,            \* an aggregate that does not fit the value dtype must be an error
     <<"noTempLeft", Len(e.obs.temp_after) = 0>>,
     \* C01 through this path: the assembly name and the metadata given at creation come back unchanged
     <<"assemblyUnchanged", e.obs.assembly = (IF "assembly" \in DOMAIN e.case /\ e.case.assembly # "" THEN e.case.assembly ELSE "unknown")>>,
     <<"metaUnchanged", e.obs.meta_tag = (IF "meta_tag" \in DOMAIN e.case THEN e.case.meta_tag ELSE 0)>>,
     <<"drift:passStructure", e.obs.two_pass = TwoPass(Len(e.case.chunks), e.case.max_merge)>> >>
  \o CSRClauses(e.obs.raw)

(* mg.fits: a value column handed in as one integer type and stored as another *)
FitsClauses(e) ==
  LET fits == AllFit(e.case.px, e.case.bits, e.case.unsigned) IN
  IF e.obs.err # ""
  THEN << <<"neverSilentlyDifferent:errorOnlyIfUnfit", ~fits>>, <<"nothingWritten", ~e.obs.is_cooler>> >>
  ELSE << <<"neverSilentlyDifferent", fits>>,
          <<"pixelwiseExact", e.obs.px = e.case.px>>,
          <<"sumOfTotals", e.obs.sum = SumSeq([k \in DOMAIN e.case.px |-> e.case.px[k][3]])>> >>

Clauses(e) ==
  CASE e.drv = "mg.merge"       -> MergeClauses(e)
    [] e.drv = "mg.fits"        -> FitsClauses(e)
    [] e.drv = "mg.incompat"    -> IncompatClauses(e)
    [] e.drv = "mg.breakpoints" -> BreakpointClauses(e)
    [] e.drv = "mg.unordered"   -> UnorderedClauses(e)
    [] OTHER -> << <<"unknownDriver", FALSE>> >>

Init == l = 1 /\ KitInit
Next == /\ l <= Len(TraceLog)
        /\ Verdict(TraceLog[l].id, IF Crashed(TraceLog[l]) THEN CrashVerdict ELSE Clauses(TraceLog[l]))
        /\ l' = l + 1
Spec == Init /\ [][Next]_l
Post == KitPost
=============================================================================
