------------------------------- MODULE NatSort -------------------------------
(* Natural ordering of sequence names and the selection / ordering of contigs   *)
(* by read_chromsizes (src/cooler/util.py:205-271) - growth of the              *)
(* specification beyond the listed properties (consumers: cooler makebins,      *)
(* cload, digest, the <chromsizes>:<binsize> BINS argument).                     *)
(*                                                                             *)
(* Text is a sequence of code points.  A name is cut into TOKENS: maximal runs  *)
(* of digits (a number) and maximal runs of other characters (text).           *)
(* Layer D: NatLess - token-wise; two numbers compare by value, two texts by    *)
(* code points, a proper prefix precedes its extensions.  Where a number meets   *)
(* a text at the same position the order is not defined by "natural order" and  *)
(* nothing is demanded (Comparable).                                           *)
(* Layer A: natsort_key + argnatsort = numpy.lexsort over the COLUMNS obtained   *)
(* by zipping the keys - zip stops at the SHORTEST key, so only the first             *)
(* min-number-of-tokens tokens take part (ArgNatSortPinned); a column holding    *)
(* numbers and texts is compared as text.  The repaired version pads the keys.   *)
EXTENDS Naturals, Integers, Sequences, FiniteSets, SequencesExt, Functions, FiniteSetsExt

IsDigit(c) == c >= 48 /\ c <= 57
\* tokens as records [num |-> BOOLEAN, s |-> code points]
RECURSIVE TokensFrom(_, _, _)
TokensFrom(s, k, acc) ==
  IF k > Len(s) THEN acc
  ELSE LET d == IsDigit(s[k]) IN
       IF Len(acc) > 0 /\ acc[Len(acc)].num = d
       THEN TokensFrom(s, k + 1, [acc EXCEPT ![Len(acc)].s = Append(@, s[k])])
       ELSE TokensFrom(s, k + 1, Append(acc, [num |-> d, s |-> <<s[k]>>]))
Tokens(s) == TokensFrom(s, 1, <<>>)

RECURSIVE StripZeros(_)
StripZeros(d) == IF Len(d) > 1 /\ d[1] = 48 THEN StripZeros(Tail(d)) ELSE d
RECURSIVE LexLess(_, _)
LexLess(a, b) ==                    \* strict lexicographic order on code-point sequences
  IF Len(b) = 0 THEN FALSE ELSE IF Len(a) = 0 THEN TRUE
  ELSE IF a[1] # b[1] THEN a[1] < b[1] ELSE LexLess(Tail(a), Tail(b))
NumLess(a, b) == LET x == StripZeros(a) y == StripZeros(b) IN
                 Len(x) < Len(y) \/ (Len(x) = Len(y) /\ LexLess(x, y))
NumEq(a, b) == StripZeros(a) = StripZeros(b)
TokLess(t, u) == IF t.num THEN NumLess(t.s, u.s) ELSE LexLess(t.s, u.s)
TokEq(t, u) == IF t.num THEN NumEq(t.s, u.s) ELSE t.s = u.s
\* two names are comparable if at every common position the token kinds agree
Comparable(a, b) == LET ta == Tokens(a) tb == Tokens(b) IN
                    \A k \in 1..(IF Len(ta) < Len(tb) THEN Len(ta) ELSE Len(tb)) : ta[k].num = tb[k].num
RECURSIVE TokSeqLess(_, _)
TokSeqLess(ta, tb) ==
  IF Len(tb) = 0 THEN FALSE ELSE IF Len(ta) = 0 THEN TRUE
  ELSE IF TokEq(ta[1], tb[1]) THEN TokSeqLess(Tail(ta), Tail(tb)) ELSE TokLess(ta[1], tb[1])
NatLess(a, b) == TokSeqLess(Tokens(a), Tokens(b))
NatEq(a, b) == LET ta == Tokens(a) tb == Tokens(b) IN Len(ta) = Len(tb) /\ \A k \in DOMAIN ta : TokEq(ta[k], tb[k])

\* Layer D: a sequence of names is in natural order (ties - equal keys such as "chr01" / "chr1" - in any order)
InNaturalOrder(names) == \A i, j \in DOMAIN names : i < j => ~NatLess(names[j], names[i])
IsPermutationOf(a, b) == /\ Len(a) = Len(b)
                         /\ \A x \in Range(a) \cup Range(b) :
                              Cardinality({i \in DOMAIN a : a[i] = x}) = Cardinality({j \in DOMAIN b : b[j] = x})

---------------------------------------------------------------------------
(* Layer A *)
MinLen(names) == LET L == {Len(Tokens(names[k])) : k \in DOMAIN names} IN CHOOSE m \in L : \A x \in L : m <= x
MaxLen(names) == LET L == {Len(Tokens(names[k])) : k \in DOMAIN names} IN CHOOSE m \in L : \A x \in L : m >= x
\* pinned: only the first MinLen tokens decide; stable for ties (input order)
TruncLess(a, b, m) == TokSeqLess(SubSeq(Tokens(a), 1, m), SubSeq(Tokens(b), 1, m))
StableSortBy(names, Less(_, _)) ==
  LET idx == SetToSortSeq(DOMAIN names, LAMBDA i, j : Less(names[i], names[j]) \/ (~Less(names[j], names[i]) /\ i < j))
  IN [k \in DOMAIN idx |-> names[idx[k]]]
ArgNatSortPinned(names) == IF Len(names) = 0 THEN <<>>
                           ELSE StableSortBy(names, LAMBDA a, b : TruncLess(a, b, MinLen(names)))
\* repaired: all tokens decide (shorter keys padded with a token that precedes every other)
ArgNatSortA(names) == StableSortBy(names, NatLess)

\* read_chromsizes: every pattern selects its names (a name may be selected by several patterns), each group in natural order
\* patterns here are the three default ones, as predicates
IsChrNumber(s) == Len(s) > 3 /\ SubSeq(s, 1, 3) = <<99, 104, 114>> /\ \A k \in 4..Len(s) : IsDigit(s[k])
IsChrXY(s) == Len(s) = 4 /\ SubSeq(s, 1, 3) = <<99, 104, 114>> /\ s[4] \in {88, 89}
IsChrM(s) == s = <<99, 104, 114, 77>>
DefaultSelection(names) ==
  ArgNatSortA(SelectSeq(names, IsChrNumber)) \o ArgNatSortA(SelectSeq(names, IsChrXY)) \o ArgNatSortA(SelectSeq(names, IsChrM))
=============================================================================
