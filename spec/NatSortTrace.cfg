SPECIFICATION Spec
POSTCONDITION Post
CHECK_DEADLOCK FALSE
