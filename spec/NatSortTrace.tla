----------------------------- MODULE NatSortTrace -----------------------------
(* Trace specification for natural ordering and read_chromsizes (NatSort.tla).   *)
EXTENDS NatSort, TraceKit

VARIABLE l

PairwiseComparable(names) == \A i, j \in DOMAIN names : Comparable(names[i], names[j])
\* ns.argsort: util.argnatsort / natsorted on a list of names (code points)
ArgsortClauses(e) ==
  LET names == e.case.names
      got == [k \in DOMAIN e.obs.order |-> names[e.obs.order[k] + 1]]
  IN
  << <<"isPermutation", Len(e.obs.order) = Len(names) /\ Range(e.obs.order) = {k - 1 : k \in DOMAIN names}>>,
     <<"naturalOrder", ~PairwiseComparable(names) \/ InNaturalOrder(got)>>,
     <<"natsortedAgrees", e.obs.sorted_err # "" \/ ~PairwiseComparable(names) \/ InNaturalOrder(e.obs.sorted)>>,
     <<"drift:asLayerA", ~PairwiseComparable(names) \/ got = ArgNatSortA(names)>> >>
\* ns.chromsizes: read_chromsizes on a chromsizes file; default patterns, all_names, or a prefix pattern
ChromsizesClauses(e) ==
  LET names == e.case.names IN
  IF e.case.mode = "all" THEN
  << <<"allNamesInFileOrder", e.obs.names = names /\ e.obs.lengths = e.case.lengths>> >>
  ELSE IF e.case.mode = "default" THEN
  << <<"defaultSelection", e.obs.names = DefaultSelection(names)>>,
     <<"lengthsFollowNames", \A k \in DOMAIN e.obs.names : \E j \in DOMAIN names :
          names[j] = e.obs.names[k] /\ e.case.lengths[j] = e.obs.lengths[k]>> >>
  ELSE
  \* one pattern "^chr": every name of the file that starts with chr, in natural order
  LET want == SelectSeq(names, LAMBDA s : Len(s) >= 3 /\ SubSeq(s, 1, 3) = <<99, 104, 114>>) IN
  << <<"selectionIsPattern", IsPermutationOf(e.obs.names, want)>>,
     <<"naturalOrder", ~PairwiseComparable(want) \/ InNaturalOrder(e.obs.names)>>,
     <<"lengthsFollowNames", \A k \in DOMAIN e.obs.names : \E j \in DOMAIN names :
          names[j] = e.obs.names[k] /\ e.case.lengths[j] = e.obs.lengths[k]>> >>

Clauses(e) ==
  CASE e.drv = "ns.argsort" -> ArgsortClauses(e)
    [] e.drv = "ns.chromsizes" -> ChromsizesClauses(e)
    [] OTHER -> << <<"unknownDriver", FALSE>> >>

Init == l = 1 /\ KitInit
Next == /\ l <= Len(TraceLog)
        /\ Verdict(TraceLog[l].id, IF Crashed(TraceLog[l]) THEN CrashVerdict ELSE Clauses(TraceLog[l]))
        /\ l' = l + 1
Spec == Init /\ [][Next]_l
Post == KitPost
=============================================================================
