------------------------------ MODULE RangeQuery ------------------------------
(* 2-D range queries over a CSR collection (properties C03, C12).              *)
(*                                                                             *)
(* Layer A transcribes src/cooler/core/_rangequery.py and core/_selectors.py:   *)
(*   ProcessSlice   - _IndexingMixin._process_slice                            *)
(*   ChooseBoxes    - FillLowerRangeQuery2D.__init__ (transpose + 3-way split) *)
(*   SpanChoices    - CSRReader.get_spans, abstracted to ANY strictly           *)
(*                    increasing edge sequence (the property must not depend   *)
(*                    on the pruning heuristic); PrunePartition is the exact    *)
(*                    heuristic, kept for drift detection                      *)
(*   ReadSpan       - CSRReader.__call__ (row loop, column mask, reflect)      *)
(*   FillLowerQuery / DirectQuery - the two engines                            *)
(*   ApplyWeights   - api.matrix (bias1/bias2 selection, divisive weights)     *)
(* Layer D is CoolerData!SubBlockRecords / PixelsInWindow.                      *)
EXTENDS CoolerData

-----------------------------------------------------------------------------
(* slice normalisation.  JSON has no None and TLC cannot compare a string with an integer, so
   an optional integer is a sequence: <<>> = None, <<x>> = x.
   spelling s = [kind |-> "slice", a |-> opt start, b |-> opt stop] | [kind |-> "scalar", a |-> <<k>>, b |-> <<>>] *)
IsNone(o) == Len(o) = 0
NormBound(o, n, dflt) == IF IsNone(o) THEN dflt ELSE IF o[1] < 0 THEN n + o[1] ELSE o[1]
ProcessSlice(s, n) ==
  IF s.kind = "scalar"
    THEN LET k == IF s.a[1] < 0 THEN s.a[1] + n ELSE s.a[1] IN
           IF k >= n THEN <<-1, -1>> ELSE <<k, k + 1>>      \* <<-1,-1>> stands for IndexError
    ELSE <<NormBound(s.a, n, 0), NormBound(s.b, n, n)>>
\* Layer D: the index set an array of length n selects for the same spelling
ArraySelection(s, n) ==
  IF s.kind = "scalar"
    THEN {k \in 0..(n - 1) : k = (IF s.a[1] < 0 THEN s.a[1] + n ELSE s.a[1])}
    ELSE {k \in 0..(n - 1) :
            /\ (IsNone(s.a) \/ k >= (IF s.a[1] < 0 THEN s.a[1] + n ELSE s.a[1]))
            /\ (IsNone(s.b) \/ k <  (IF s.b[1] < 0 THEN s.b[1] + n ELSE s.b[1]))}
RangeSet(lohi) == {k \in Int : lohi[1] <= k /\ k < lohi[2]}

-----------------------------------------------------------------------------
(* the index the reader relies on *)
Bin1Col(c) == [k \in DOMAIN c.px |-> c.px[k][1]]
Offsets(c) == RLIndex(Bin1Col(c), c.n)          \* Offsets(c)[i + 1] = bin1_offset[i]

ComesBefore(a0, a1, b0, b1, strict) ==
  IF a0 < b0 THEN (IF strict THEN a1 <= b0 ELSE a1 <= b1) ELSE FALSE
IvContains(a0, a1, b0, b1) == ~(a0 > b0 \/ a1 < b1)

\* sequence of [box |-> <<i0,i1,j0,j1>>, tr |-> BOOLEAN]; tr: result of the box is transposed
ChooseBoxes(w) ==
  LET ut == w[2] > w[4]
      a0 == IF ut THEN w[3] ELSE w[1]
      a1 == IF ut THEN w[4] ELSE w[2]
      b0 == IF ut THEN w[1] ELSE w[3]
      b1 == IF ut THEN w[2] ELSE w[4]
  IN  IF a0 = b0 \/ ComesBefore(a0, a1, b0, b1, TRUE)
        THEN << [box |-> <<a0, a1, b0, b1>>, tr |-> ut] >>
      ELSE IF ComesBefore(a0, a1, b0, b1, FALSE)
        THEN << [box |-> <<a0, b0, b0, b1>>, tr |-> ut], [box |-> <<b0, a1, b0, b1>>, tr |-> ut] >>
      ELSE IF IvContains(b0, b1, a0, a1)
        THEN << [box |-> <<b0, a0, a0, a1>>, tr |-> ~ut], [box |-> <<a0, a1, a0, b1>>, tr |-> ut] >>
      ELSE << [box |-> <<0, 0, 0, 0>>, tr |-> "ValueError"] >>

\* CSRReader.get_spans, abstracted: ANY strictly increasing edge sequence that starts at the first
\* row of the box and ends at a row `last` such that the rows [last, i1) hold no records (the real
\* heuristic looks the edges up in the offsets, so trailing empty rows are not spanned; a single
\* edge means no span at all).  The property must hold for every such choice.
RowEmpty(c, i) == Offsets(c)[i + 1] = Offsets(c)[i + 2]
EdgeSeqs(lo, hi) ==
  { SetToSortSeq({lo, hi} \cup S, <) : S \in SUBSET ((lo + 1)..(hi - 1)) }
Lasts(c, box) == {m \in box[1]..box[2] : \A i \in m..(box[2] - 1) : RowEmpty(c, i)}
SpanChoices(c, box) ==
  IF box[2] - box[1] < 1 \/ box[4] - box[3] < 1 THEN { <<>> }
  ELSE UNION {EdgeSeqs(box[1], m) : m \in Lasts(c, box)}
IsEdgeSeq(c, e, box) ==
  /\ Len(e) >= 1 /\ e[1] = box[1] /\ e[Len(e)] \in Lasts(c, box)
  /\ \A k \in 1..(Len(e) - 1) : e[k] < e[k + 1]

\* exact arg_prune_partition on offsets seq (1-based TLA sequence of offsets of rows i0..i1)
\* cuts = linspace(lo, hi, num) truncated; indices = unique(searchsorted(seq, cuts, 'left'))
SearchLeft(seq, x) == Cardinality({k \in DOMAIN seq : seq[k] < x})
PrunePartition(seq, step) ==
  LET lo == seq[1]
      hi == seq[Len(seq)]
      num == 2 + (hi - lo) \div step
      cuts == {lo + (k * (hi - lo)) \div (num - 1) : k \in 0..(num - 1)}
  IN SetToSortSeq({SearchLeft(seq, x) : x \in cuts}, <)

\* CSRReader.__call__(field, bbox, row_span=(s0,s1), reflect): a SEQUENCE of records
RowSlice(c, i) == SubSeq(c.px, Offsets(c)[i + 1] + 1, Offsets(c)[i + 2])
RECURSIVE RowsFrom(_, _, _, _, _)
RowsFrom(c, i, s1, j0, j1) ==
  IF i >= s1 THEN <<>>
  ELSE SelectSeq(RowSlice(c, i), LAMBDA p : p[2] >= j0 /\ p[2] < j1) \o RowsFrom(c, i + 1, s1, j0, j1)
MapSeq(s, Op(_)) == [k \in DOMAIN s |-> Op(s[k])]
ReadSpan(c, box, s0, s1, reflect) ==
  LET rows == RowsFrom(c, s0, s1, box[3], box[4])
      dup  == SelectSeq(rows, LAMBDA p : p[1] # p[2] /\ p[2] < box[2])
  IN IF reflect THEN rows \o MapSeq(dup, Mirror) ELSE rows

RECURSIVE ReadEdges(_, _, _, _, _, _)
ReadEdges(c, box, edges, k, reflect, tr) ==
  IF k >= Len(edges) THEN <<>>
  ELSE LET part == ReadSpan(c, box, edges[k], edges[k + 1], reflect)
       IN (IF tr THEN MapSeq(part, Mirror) ELSE part) \o ReadEdges(c, box, edges, k + 1, reflect, tr)

\* the two engines; `edges` = one edge sequence per box
FillLowerQuery(c, w, edges) ==
  LET bx == ChooseBoxes(w) IN
    IF Len(bx) = 1 THEN ReadEdges(c, bx[1].box, edges[1], 1, TRUE, bx[1].tr)
    ELSE ReadEdges(c, bx[1].box, edges[1], 1, TRUE, bx[1].tr)
         \o ReadEdges(c, bx[2].box, edges[2], 1, TRUE, bx[2].tr)
DirectQuery(c, w, edges) == ReadEdges(c, w, edges, 1, FALSE, FALSE)

\* the engine api.matrix selects
Query(c, w, form, edges) ==
  IF form = "pixels" \/ c.mode = "square" THEN DirectQuery(c, w, edges[1])
  ELSE FillLowerQuery(c, w, edges)

-----------------------------------------------------------------------------
(* Layer D statements about a query result `out` (sequence of records) *)
BlockExact(c, w, out)  == Range(out) = SubBlockRecords(c, w)
NoDuplicate(out)       == Cardinality(Range(out)) = Len(out)
PixelOrder(c, w, out)  == out = PixelsInWindow(c, w)

-----------------------------------------------------------------------------
(* balanced reads (C12).  Weights are powers of two or NaN so that every product and every
   reciprocal is exact in binary floating point: a weight is an exponent e (value 2^e) or NaN (-1).
   Results are reported as integers scaled by 2^SC. *)
NaN == -1     \* sentinel: exponents and scaled results are naturals
SC == 8
Pow2(e) == 2 ^ e
\* scaled balanced value of raw value v with row weight er and column weight ec
BalancedScaled(v, er, ec, divisive) ==
  IF er = NaN \/ ec = NaN THEN NaN
  ELSE IF divisive THEN v * Pow2(SC - er - ec) ELSE v * Pow2(SC + er + ec)
\* Layer D: expected balanced records of window w; W = sequence of exponents per bin (1-based)
BalancedRecords(c, w, W, divisive) ==
  { <<p[1], p[2], BalancedScaled(p[3], W[p[1] + 1], W[p[2] + 1], divisive)>> : p \in SubBlockRecords(c, w) }
BalancedPixelRecords(c, w, W, divisive) ==
  [k \in DOMAIN PixelsInWindow(c, w) |->
     LET p == PixelsInWindow(c, w)[k] IN
       <<p[1], p[2], p[3], BalancedScaled(p[3], W[p[1] + 1], W[p[2] + 1], divisive)>>]
\* dense: every cell of a masked row or column is NaN, also where the raw value is 0
BalancedDense(c, w, W, divisive) ==
  [i \in 1..(w[2] - w[1]) |-> [j \in 1..(w[4] - w[3]) |->
     BalancedScaled(FullValue(c, w[1] + i - 1, w[3] + j - 1, 3), W[w[1] + i], W[w[3] + j], divisive)]]
\* Layer A: api.matrix - bias1 = weights[i0:i1]; bias2 = bias1 if (i0,i1)=(j0,j1) else weights[j0:j1];
\* data * bias1[row - i0] * bias2[col - j0]
ApplyWeights(recs, w, W, divisive) ==
  LET bias1 == [k \in 1..(w[2] - w[1]) |-> W[w[1] + k]]
      bias2 == IF <<w[1], w[2]>> = <<w[3], w[4]>> THEN bias1 ELSE [k \in 1..(w[4] - w[3]) |-> W[w[3] + k]]
  IN [k \in DOMAIN recs |->
        <<recs[k][1], recs[k][2],
          BalancedScaled(recs[k][3], bias1[recs[k][1] - w[1] + 1], bias2[recs[k][2] - w[3] + 1], divisive)>>]
\* flag: "None" | "True" | "False"
DivisiveDefault(name, flag) ==
  IF flag = "None" THEN name \in {"KR", "VC", "VC_SQRT"} ELSE flag = "True"
=============================================================================
