--------------------------- MODULE RangeQueryTrace ---------------------------
(* Trace specification for 2-D range queries (C03, C12): every recorded query   *)
(* of the real code is judged against Layer D (CoolerData) and its internals    *)
(* (boxes, spans) against Layer A (RangeQuery).  Clauses prefixed "drift:"      *)
(* compare internals only; they never make a violation.                        *)
EXTENDS RangeQuery, TraceKit

VARIABLE l

Coll(case) == [n |-> case.n, mode |-> case.mode, px |-> case.px]
All(s, P(_)) == \A k \in DOMAIN s : P(s[k])
\* relative COO triplets <<row, col, v>> of window w -> absolute records
Abs(trip, w) == [k \in DOMAIN trip |-> <<trip[k][1] + w[1], trip[k][2] + w[3], trip[k][3]>>]
ShapeOK(dense, w) ==
  /\ Len(dense) = w[2] - w[1]
  /\ \A i \in DOMAIN dense : Len(dense[i]) = w[4] - w[3]

-----------------------------------------------------------------------------
(* rq.engine: both engines called directly on every window of a store *)
\* recorded boxes: <<i0, i1, j0, j1, tr>> with tr = 1 transposed fetch, 0 plain, -1 not observable (no task)
BoxesAsModel(boxes, w) ==
  LET m == ChooseBoxes(w) IN
    /\ Len(boxes) = Len(m)
    /\ \A k \in DOMAIN m :
          /\ <<boxes[k][1], boxes[k][2], boxes[k][3], boxes[k][4]>> = m[k].box
          /\ boxes[k][5] \in {-1, IF m[k].tr THEN 1 ELSE 0}
EdgesOK(c, edges, box) ==
  IF box[2] - box[1] < 1 \/ box[4] - box[3] < 1 THEN Len(edges) = 0
  ELSE IF Len(edges) = 0 THEN box[1] \in Lasts(c, box)   \* a single edge leaves no task to observe
  ELSE IsEdgeSeq(c, edges, box)
EngineClauses(e) ==
  LET c == Coll(e.case) IN
  << <<"blockExact",  All(e.obs.q, LAMBDA q : IF c.mode = "symm"
                                              THEN Range(q.fill) = SubBlockRecords(c, q.w) ELSE TRUE)>>,
     <<"noDuplicate", All(e.obs.q, LAMBDA q : IF c.mode = "symm" THEN NoDuplicate(q.fill) ELSE TRUE)>>,
     <<"pixelOrder",  All(e.obs.q, LAMBDA q : q.direct = PixelsInWindow(c, q.w))>>,
     <<"pixelIndex",  All(e.obs.q, LAMBDA q :
                        /\ Len(q.didx) = Len(q.direct)
                        /\ \A k \in DOMAIN q.didx : c.px[q.didx[k] + 1] = q.direct[k])>>,
     <<"squareIsStored", All(e.obs.q, LAMBDA q : IF c.mode = "square"
                                              THEN Range(q.direct) = SubBlockRecords(c, q.w) ELSE TRUE)>>,
     <<"drift:boxes", All(e.obs.q, LAMBDA q : IF c.mode = "symm" /\ q.hasint THEN BoxesAsModel(q.boxes, q.w) ELSE TRUE)>>,
     <<"drift:spans", All(e.obs.q, LAMBDA q :
                        IF c.mode = "symm" /\ q.hasint /\ BoxesAsModel(q.boxes, q.w)
                        THEN \A k \in DOMAIN q.boxes : EdgesOK(c, q.edges[k], q.boxes[k]) ELSE TRUE)>>,
     <<"drift:modelResult", All(e.obs.q, LAMBDA q :
                        IF c.mode = "symm" /\ q.hasint /\ BoxesAsModel(q.boxes, q.w)
                           /\ (\A k \in DOMAIN q.boxes : EdgesOK(c, q.edges[k], q.boxes[k]))
                        THEN q.fill = FillLowerQuery(c, q.w, q.edges) ELSE TRUE)>> >>

(* rq.reader: CSRReader called on (bbox, span, reflect) *)
ReaderClauses(e) ==
  LET c == Coll(e.case) IN
  << <<"drift:readSpan", All(e.obs.q, LAMBDA q : q.out = ReadSpan(c, q.box, q.span[1], q.span[2], q.reflect))>> >>

-----------------------------------------------------------------------------
(* rq.api: Cooler.matrix(...)[i0:i1, j0:j1] through the public API on a real file *)
ApiClauses(e) ==
  LET c == Coll(e.case) IN
  << <<"blockExact",  All(e.obs.q, LAMBDA q : Range(Abs(q.sparse, q.w)) = SubBlockRecords(c, q.w))>>,
     <<"noDuplicate", All(e.obs.q, LAMBDA q : NoDuplicate(q.sparse))>>,
     <<"sparseShape", All(e.obs.q, LAMBDA q : q.shape = <<q.w[2] - q.w[1], q.w[4] - q.w[3]>>)>>,
     <<"denseExact",  All(e.obs.q, LAMBDA q : ShapeOK(q.dense, q.w) /\ q.dense = DenseBlock(c, q.w))>>,
     <<"pixelOrder",  All(e.obs.q, LAMBDA q : q.pixels = PixelsInWindow(c, q.w))>>,
     <<"pixelIndex",  All(e.obs.q, LAMBDA q :
                        /\ Len(q.pidx) = Len(q.pixels)
                        /\ \A k \in DOMAIN q.pidx : c.px[q.pidx[k] + 1] = q.pixels[k])>>,
     <<"defaultIndex", All(e.obs.q, LAMBDA q : q.pidx0 = [k \in 1..Len(q.pixels) |-> k - 1])>>,
     <<"pixelIndex:joined", All(e.obs.q, LAMBDA q : ~Has(q, "pidx_joined") \/ q.pidx_joined = q.pidx)>>,
     \* join=True: every stored record of the window with the coordinates of its own two bins, in storage order
     <<"joinedPixels", All(e.obs.q, LAMBDA q : ~Has(q, "joined") \/
          LET px == PixelsInWindow(c, q.w)
              t == e.case.table
          IN q.joined = [k \in DOMAIN px |-> <<t[px[k][1] + 1][1], t[px[k][1] + 1][2], t[px[k][1] + 1][3],
                                               t[px[k][2] + 1][1], t[px[k][2] + 1][2], t[px[k][2] + 1][3], px[k][3]>>])>> >>

(* rq.slice: slice spellings through Cooler.matrix()[key] *)
SelWindow(rs, cs, n) ==
  LET R == ArraySelection(rs, n)
      C == ArraySelection(cs, n)
      r0 == IF R = {} THEN 0 ELSE Min(R)
      c0 == IF C = {} THEN 0 ELSE Min(C)
  IN <<r0, r0 + Cardinality(R), c0, c0 + Cardinality(C)>>
SliceClauses(e) ==
  LET c == Coll(e.case) IN
  << <<"sliceAsArray", All(e.obs.q, LAMBDA q :
          LET w == SelWindow(q.rs, q.cs, c.n) IN
            /\ q.shape = <<w[2] - w[1], w[4] - w[3]>>
            /\ Range(Abs(q.sparse, w)) = SubBlockRecords(c, w)
            /\ NoDuplicate(q.sparse))>>,
     <<"drift:processSlice", All(e.obs.q, LAMBDA q :
          /\ ProcessSlice(q.rs, c.n) = q.rnorm /\ ProcessSlice(q.cs, c.n) = q.cnorm)>> >>
  \o (IF "q_oob" \in DOMAIN e.obs
        \* bounds beyond the table and reversed ranges "resolved as for arrays": what ArraySelection selects (known finding F29)
        THEN << <<"outOfRangeBoundsAsArrays", All(e.obs.q_oob, LAMBDA q :
                   LET R == ArraySelection(q.rs, c.n)
                       C == ArraySelection(q.cs, c.n)
                       r0 == IF R = {} THEN 0 ELSE Min(R)
                       c0 == IF C = {} THEN 0 ELSE Min(C)
                   IN /\ q.err = ""
                      /\ q.shape = <<Cardinality(R), Cardinality(C)>>
                      /\ (R = {} \/ C = {} \/ Range([j \in DOMAIN q.sparse |-> <<q.sparse[j][1] + r0, q.sparse[j][2] + c0, q.sparse[j][3]>>])
                                                = SubBlockRecords(c, <<r0, r0 + Cardinality(R), c0, c0 + Cardinality(C)>>)))>> >>
        ELSE <<>>)

-----------------------------------------------------------------------------
(* rq.balanced: balanced reads (C12); weights W[name] = exponents, -1 = NaN; values scaled by 2^SC *)
BalClauses(e) ==
  LET c == Coll(e.case)
      W == e.case.wexp
      d == DivisiveDefault(e.case.wname, e.case.divisive)
  IN
  << <<"productExact", All(e.obs.q, LAMBDA q : Range(Abs(q.sparse, q.w)) = BalancedRecords(c, q.w, W, d))>>,
     <<"noDuplicate",  All(e.obs.q, LAMBDA q : NoDuplicate([k \in DOMAIN q.sparse |-> <<q.sparse[k][1], q.sparse[k][2]>>]))>>,
     <<"denseExact",   All(e.obs.q, LAMBDA q : ShapeOK(q.dense, q.w) /\ q.dense = BalancedDense(c, q.w, W, d))>>,
     <<"pixelsExact",  All(e.obs.q, LAMBDA q : q.pixels = BalancedPixelRecords(c, q.w, W, d))>>,
     \* with the labels kept (ignore_index=False): the same records, each labelled with its storage row number
     <<"pixelsExact:labelled", All(e.obs.q, LAMBDA q :
          /\ q.pixels_labelled = q.pixels
          /\ Len(q.pidx) = Len(q.pixels)
          /\ \A k \in DOMAIN q.pidx : c.px[q.pidx[k] + 1] = <<q.pixels[k][1], q.pixels[k][2], q.pixels[k][3]>>)>>,
     <<"drift:applyWeights", All(e.obs.q, LAMBDA q :
          Range(Abs(q.sparse, q.w)) = Range(ApplyWeights(SetToSeq(SubBlockRecords(c, q.w)), q.w, W, d)))>> >>
\* rq.missing: asking for a weight column that does not exist must be an error
MissingClauses(e) ==
  << <<"missingColumnIsError", All(e.obs.q, LAMBDA q : q.err = "ValueError")>> >>

-----------------------------------------------------------------------------
Clauses(e) ==
  CASE e.drv = "rq.engine"   -> EngineClauses(e)
    [] e.drv = "rq.reader"   -> ReaderClauses(e)
    [] e.drv = "rq.api"      -> ApiClauses(e)
    [] e.drv = "rq.slice"    -> SliceClauses(e)
    [] e.drv = "rq.balanced" -> BalClauses(e)
    [] e.drv = "rq.missing"  -> MissingClauses(e)
    [] OTHER -> << <<"unknownDriver", FALSE>> >>

Init == l = 1 /\ KitInit
Next == /\ l <= Len(TraceLog)
        /\ Verdict(TraceLog[l].id, IF Crashed(TraceLog[l]) THEN CrashVerdict ELSE Clauses(TraceLog[l]))
        /\ l' = l + 1
Spec == Init /\ [][Next]_l
Post == KitPost
=============================================================================
