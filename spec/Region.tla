-------------------------------- MODULE Region --------------------------------
(* Region and URI strings (property C19).  Text is a sequence of code points.    *)
(*                                                                             *)
(* Layer D: a well-formed region is  name [":" start "-" [end]]  where a         *)
(* coordinate numeral is  digits-with-commas ["." digits] [unit]  and denotes    *)
(* the exact integer obtained by moving the decimal point by the unit's exponent *)
(* (k/kb 3, M/Mb 6, G/Gb 9, case-insensitive).  Numbers are handled as DIGIT     *)
(* SEQUENCES, so the denotation is exact for any length (no 32-bit overflow, no  *)
(* floating point).                                                            *)
(* Layer A: util.parse_humanized after "fix: parse_humanized scales exactly":    *)
(* strip commas, split at the unit, scale the decimal by 10^exp, truncate.       *)
(* (The pinned tree multiplied a binary float: 1.001k -> 1000.)                  *)
EXTENDS Naturals, Integers, Sequences, FiniteSets, SequencesExt, Functions, FiniteSetsExt

Digit(c) == c >= 48 /\ c <= 57
Comma == 44
Dot == 46
Colon == 58
Hyphen == 45
Upper(c) == IF c >= 97 /\ c <= 122 THEN c - 32 ELSE c
UpperSeq(s) == [k \in DOMAIN s |-> Upper(s[k])]
\* "K" "KB" "M" "MB" "G" "GB"
UnitExp(u) ==
  LET U == UpperSeq(u) IN
  IF U = <<>> THEN 0
  ELSE IF U = <<75>> \/ U = <<75, 66>> THEN 3
  ELSE IF U = <<77>> \/ U = <<77, 66>> THEN 6
  ELSE IF U = <<71>> \/ U = <<71, 66>> THEN 9
  ELSE -1                                        \* unknown unit
StripCommas(s) == SelectSeq(s, LAMBDA c : c # Comma)
RECURSIVE StripLeadingZeros(_)
StripLeadingZeros(d) == IF Len(d) > 1 /\ d[1] = 48 THEN StripLeadingZeros(Tail(d)) ELSE d
Zeros(n) == [k \in 1..n |-> 48]
AllZero(s) == \A k \in DOMAIN s : s[k] = 48

\* numeral = [ip, point (BOOLEAN), fp, unit];  its text and its denotation
NumeralText(n) == n.ip \o (IF n.point THEN <<Dot>> \o n.fp ELSE <<>>) \o n.unit
WellFormedNumeral(n) ==
  /\ Len(StripCommas(n.ip)) > 0 /\ \A k \in DOMAIN n.ip : Digit(n.ip[k]) \/ n.ip[k] = Comma
  /\ n.ip[1] # Comma
  /\ \A k \in DOMAIN n.fp : Digit(n.fp[k])
  /\ (~n.point => Len(n.fp) = 0)
  /\ UnitExp(n.unit) >= 0
  /\ (UnitExp(n.unit) = 0 => ~n.point)           \* a decimal point needs a unit
\* the integer a well-formed numeral denotes, as a digit sequence; <<>> if it is not an integer
Denotes(n) ==
  LET e == UnitExp(n.unit)
      ip == StripCommas(n.ip)
      d == Len(n.fp)
  IN IF d <= e THEN StripLeadingZeros(ip \o n.fp \o Zeros(e - d))
     ELSE IF AllZero(SubSeq(n.fp, e + 1, d)) THEN StripLeadingZeros(ip \o SubSeq(n.fp, 1, e))
     ELSE <<>>
\* Layer A: what the (repaired) implementation returns for a numeral: exact scaling, truncation toward zero
ParseHumanizedA(n) ==
  LET e == UnitExp(n.unit)
      ip == StripCommas(n.ip)
      d == Len(n.fp)
  IN IF d <= e THEN StripLeadingZeros(ip \o n.fp \o Zeros(e - d))
     ELSE StripLeadingZeros(ip \o SubSeq(n.fp, 1, e))

\* digit sequences <-> small naturals (for cross-checking the digit manipulation by arithmetic)
RECURSIVE DigitsToNat(_)
DigitsToNat(d) == IF Len(d) = 0 THEN 0 ELSE DigitsToNat(SubSeq(d, 1, Len(d) - 1)) * 10 + (d[Len(d)] - 48)
\* comparison of natural numbers given as normalised digit sequences
DigitsLess(a, b) ==
  Len(a) < Len(b) \/ (Len(a) = Len(b) /\ \E k \in DOMAIN a : a[k] < b[k] /\ \A j \in 1..(k - 1) : a[j] = b[j])

\* region = [name, has (BOOLEAN: coordinates given), s, open (BOOLEAN: no end), e]
RegionText(r) ==
  r.name \o (IF r.has THEN <<Colon>> \o NumeralText(r.s) \o <<Hyphen>> \o (IF r.open THEN <<>> ELSE NumeralText(r.e)) ELSE <<>>)
WellFormedRegion(r) ==
  /\ Len(r.name) > 0 /\ \A k \in DOMAIN r.name : r.name[k] # Colon
  /\ r.name[1] # 32 /\ r.name[Len(r.name)] # 32
  /\ r.has => (/\ WellFormedNumeral(r.s) /\ Denotes(r.s) # <<>>
               /\ (~r.open => (WellFormedNumeral(r.e) /\ Denotes(r.e) # <<>> /\ ~DigitsLess(Denotes(r.e), Denotes(r.s)))))

\* URIs: file [ "::" ["/"] group ]
URIText(u) == u.file \o (IF u.sep THEN <<Colon, Colon>> \o (IF u.slash THEN <<47>> ELSE <<>>) \o u.group ELSE <<>>)
URIGroup(u) == IF u.sep THEN <<47>> \o u.group ELSE <<47>>
=============================================================================
