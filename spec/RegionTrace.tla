------------------------------ MODULE RegionTrace ------------------------------
(* Trace specification for region and URI strings (C19).                          *)
EXTENDS Region, TraceKit

VARIABLE l
All(s, P(_)) == \A k \in DOMAIN s : P(s[k])

(* rg.parse: a generated well-formed region through parse_region_string *)
ParseClauses(e) ==
  LET r == e.case.r IN
  << <<"generatorIsGrammar", e.case.text = RegionText(r) /\ WellFormedRegion(r)>>,
     <<"wellFormedAccepted", e.obs.err = "">>,
     <<"denotesExactly", e.obs.err # "" \/
          /\ e.obs.name = r.name
          /\ e.obs.s = (IF r.has THEN Denotes(r.s) ELSE <<>>)
          /\ e.obs.e = (IF r.has /\ ~r.open THEN Denotes(r.e) ELSE <<>>)>>,
     <<"drift:parseHumanized", e.obs.err # "" \/ ~r.has \/ e.obs.s = ParseHumanizedA(r.s)>> >>

(* rg.malformed: strings that must be refused (empty name, missing hyphen, negative, non-numeric, reversed, unknown unit) *)
MalformedClauses(e) ==
  << <<"malformedRefused", e.obs.err = "ValueError">> >>

(* rg.bounds: parse_region against chromosome lengths *)
BoundsClauses(e) ==
  LET c == e.case IN
  IF c.expect = "refuse" THEN << <<"outOfBoundsOrUnknownRefused", e.obs.err = "ValueError">> >>
  ELSE << <<"withinBoundsAccepted", e.obs.err = "">>,
          <<"defaultsFilled", e.obs.err # "" \/ (e.obs.name = c.name /\ e.obs.s = c.want_s /\ e.obs.e = c.want_e)>> >>

(* rg.roundtrip: format a region (plain / with thousands separators), parse it back *)
RoundTripClauses(e) ==
  << <<"roundTrip", All(e.obs.q, LAMBDA q : q.err = "" /\ q.name = e.case.name /\ q.s = e.case.s /\ q.e = e.case.e)>> >>

(* rg.uri *)
UriClauses(e) ==
  IF e.case.kind = "bad" THEN << <<"uriRefused", e.obs.err = "ValueError">> >>
  ELSE << <<"generatorIsGrammar", e.case.text = URIText(e.case.u)>>,
          <<"uriSplit", e.obs.err = "" /\ e.obs.file = e.case.u.file /\ e.obs.group = URIGroup(e.case.u)>> >>

Clauses(e) ==
  CASE e.drv = "rg.parse"     -> ParseClauses(e)
    [] e.drv = "rg.malformed" -> MalformedClauses(e)
    [] e.drv = "rg.bounds"    -> BoundsClauses(e)
    [] e.drv = "rg.roundtrip" -> RoundTripClauses(e)
    [] e.drv = "rg.uri"       -> UriClauses(e)
    [] OTHER -> << <<"unknownDriver", FALSE>> >>

Init == l = 1 /\ KitInit
Next == /\ l <= Len(TraceLog)
        /\ Verdict(TraceLog[l].id, IF Crashed(TraceLog[l]) THEN CrashVerdict ELSE Clauses(TraceLog[l]))
        /\ l' = l + 1
Spec == Init /\ [][Next]_l
Post == KitPost
=============================================================================
