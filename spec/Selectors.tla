------------------------------- MODULE Selectors -------------------------------
(* Table selectors and bin annotation (property C14).                             *)
(*                                                                              *)
(* Layer D: TableSlice - the rows of an index range, labelled with their row       *)
(* numbers, for any column subset; Annotate - every pixel gets the attributes of   *)
(* its OWN two bins, order and index kept.                                       *)
(* Layer A: api.annotate (api.py:572-662) with its strategy switch: an empty pixel  *)
(* frame takes the window [0,0]; fewer pixels than bins take the window            *)
(* [min, max] of the bin ids; otherwise the whole table; attributes are then       *)
(* taken POSITIONALLY relative to the first label of the window.  The bin table    *)
(* may be a contiguous part [a, b) of the full table (labels a .. b-1).            *)
EXTENDS RangeQuery

\* a table = sequence of rows; slice spelling as in RangeQuery!ProcessSlice
TableSlice(rows, s) ==
  LET sel == ArraySelection(s, Len(rows)) IN
    [labels |-> SetToSortSeq(sel, <), rows |-> [k \in 1..Cardinality(sel) |-> rows[SetToSortSeq(sel, <)[k] + 1]]]
ProjectCols(rows, cols) == [k \in DOMAIN rows |-> [c \in DOMAIN cols |-> rows[k][cols[c]]]]
\* pixels(join=True) with a column subset (1 = bin1_id, 2 = bin2_id, 3.. = value columns): every ID column that was asked for
\* is replaced by chromosome / start / end of its bin - side 1 first, then side 2 - followed by the value columns in the
\* order asked for
RangeOf(cols) == {cols[c] : c \in DOMAIN cols}
JoinedCols(cols, names) ==
  (IF 1 \in RangeOf(cols) THEN <<"chrom1", "start1", "end1">> ELSE <<>>) \o
  (IF 2 \in RangeOf(cols) THEN <<"chrom2", "start2", "end2">> ELSE <<>>) \o
  [c \in DOMAIN SelectSeq(cols, LAMBDA i : i > 2) |-> names[SelectSeq(cols, LAMBDA i : i > 2)[c]]]
JoinedRow(r, cols, t) ==
  (IF 1 \in RangeOf(cols) THEN t[r[1] + 1] ELSE <<>>) \o
  (IF 2 \in RangeOf(cols) THEN t[r[2] + 1] ELSE <<>>) \o
  [c \in DOMAIN SelectSeq(cols, LAMBDA i : i > 2) |-> r[SelectSeq(cols, LAMBDA i : i > 2)[c]]]
JoinedProject(rows, cols, t) == [k \in DOMAIN rows |-> JoinedRow(rows[k], cols, t)]

\* bins: attributes per bin (sequence over the FULL table); part = <<a, b>>: the rows a..b-1 are available
\* pixels: sequence of <<label, bin1, bin2, v...>> in any order
Annotate(pixels, bins) ==
  [k \in DOMAIN pixels |-> <<pixels[k][1]>> \o bins[pixels[k][2] + 1] \o bins[pixels[k][3] + 1] \o SubSeq(pixels[k], 4, Len(pixels[k]))]

\* Layer A: the window of labels that is sliced out of the (partial) table for one side, then positional take.
\* Returns the attribute rows for the given bin ids, or "IndexError" modelled as <<>> when the take fails.
WindowA(ids, part, nbinsAvail) ==
  IF Len(ids) = 0 THEN <<0, 0>>                                         \* bmin = bmax = 0 (labels, inclusive)
  ELSE IF nbinsAvail > Len(ids) THEN <<Min(Range(ids)), Max(Range(ids))>>
  ELSE <<0, part[2] - 1>>                                               \* 0 .. None
\* labels available in the part that fall into the inclusive window
WinLabels(win, part) == {x \in part[1]..(part[2] - 1) : win[1] <= x /\ x <= win[2]}
\* the pinned code takes ann.index[0] even when the window is empty (IndexError); the repaired code takes an
\* empty selection for an empty pixel frame
TakeA(ids, bins, part) ==
  LET win == WindowA(ids, part, part[2] - part[1])
      labs == WinLabels(win, part)
  IN IF Len(ids) = 0 THEN <<>>
     ELSE IF labs = {} THEN <<-1>>                                      \* would raise
     ELSE LET first == Min(labs) IN
          [k \in DOMAIN ids |-> IF ids[k] \in labs THEN bins[ids[k] + 1] ELSE <<-1>>]   \* out-of-window take = error
AnnotateA(pixels, bins, part) ==
  LET a1 == TakeA([k \in DOMAIN pixels |-> pixels[k][2]], bins, part)
      a2 == TakeA([k \in DOMAIN pixels |-> pixels[k][3]], bins, part)
  IN [k \in DOMAIN pixels |-> <<pixels[k][1]>> \o a1[k] \o a2[k] \o SubSeq(pixels[k], 4, Len(pixels[k]))]
\* the part contains every bin the pixels need
PartSuffices(pixels, part) == \A k \in DOMAIN pixels : \A j \in {2, 3} : part[1] <= pixels[k][j] /\ pixels[k][j] < part[2]
=============================================================================
