---------------------------- MODULE SelectorsTrace ----------------------------
(* Trace specification for table selectors and annotation (C14).                  *)
EXTENDS Selectors, TraceKit

VARIABLE l
All(s, P(_)) == \A k \in DOMAIN s : P(s[k])

Joined(e) == "joined" \in DOMAIN e.case /\ e.case.joined
(* sel.table: chroms()/bins()/pixels() selectors sliced with any spelling and any column subset *)
TableClauses(e) ==
  << <<"selectorAnswers", All(e.obs.q, LAMBDA q : q.err = "")>>,
     <<"rowsExact", All(e.obs.q, LAMBDA q : q.err # "" \/
          q.rows = (IF Joined(e) THEN JoinedProject(TableSlice(e.case.rows, q.s).rows, q.colidx, e.case.table)
                    ELSE ProjectCols(TableSlice(e.case.rows, q.s).rows, q.colidx)))>>,
     <<"labelsAreRowNumbers", All(e.obs.q, LAMBDA q : q.err # "" \/ q.index = TableSlice(e.case.rows, q.s).labels)>>,
     <<"columnsAsAsked", All(e.obs.q, LAMBDA q : q.err # "" \/
          q.columns = (IF Joined(e) THEN JoinedCols(q.colidx, e.case.allcols) ELSE q.colnames))>> >>

(* sel.annotate: cooler.annotate(pixels, bins) and pixels(join=True) *)
AnnotateClauses(e) ==
  LET want == Annotate(e.case.pixels, e.case.binattrs) IN
  << <<"annotateAnswers", e.obs.err = "">>,
     <<"annotationOfOwnBins", e.obs.err # "" \/ [k \in DOMAIN e.obs.rows |-> Tail(e.obs.rows[k])] = [k \in DOMAIN want |-> Tail(want[k])]>>,
     <<"orderAndIndexKept", e.obs.err # "" \/ [k \in DOMAIN e.obs.rows |-> e.obs.rows[k][1]] = [k \in DOMAIN want |-> want[k][1]]>>,
     <<"drift:annotateAsModel", e.obs.err # "" \/ e.obs.rows = AnnotateA(e.case.pixels, e.case.binattrs, e.case.part)>> >>

Clauses(e) ==
  CASE e.drv = "sel.table"    -> TableClauses(e)
    [] e.drv = "sel.annotate" -> AnnotateClauses(e)
    [] OTHER -> << <<"unknownDriver", FALSE>> >>

Init == l = 1 /\ KitInit
Next == /\ l <= Len(TraceLog)
        /\ Verdict(TraceLog[l].id, IF Crashed(TraceLog[l]) THEN CrashVerdict ELSE Clauses(TraceLog[l]))
        /\ l' = l + 1
Spec == Init /\ [][Next]_l
Post == KitPost
=============================================================================
