------------------------------- MODULE Session -------------------------------
(* A cooler collection as a MUTABLE object.                                     *)
(*                                                                             *)
(* State: the extra columns of its bins and pixels tables and its chromosome   *)
(* name vector.  Operations that change a collection IN PLACE:                 *)
(*   append(uri, table, data, force)       - cooler.create.append              *)
(*   balance_cooler(clr, store=True, store_name=c)   (always replaces)         *)
(*   cooler balance --name c [--force] [--check] [--stdout]                    *)
(*   rename_chroms(clr, map)                                                   *)
(* and what a LIVE Cooler object (opened before the history) and a FRESH one   *)
(* (opened after every step) must show.  A column carries a TAG: 0 = absent,   *)
(* t > 0 = appended with the constant value t, -1 = computed balancing weights.*)
(* Not one of the listed properties: growth of the specification (DESIGN.md    *)
(* section 14); bound to the code by SessionTrace / driver ss.history.         *)
EXTENDS Naturals, Integers, Sequences, FiniteSets

CONSTANTS ColNames,      \* names of extra columns, e.g. {"weight", "KR", "x"}
          Tags,          \* positive tags of appended data
          NameVecs,      \* number of chromosome-name vectors the file can carry (1 .. NameVecs)
          MaxOps

Computed == -1
Absent == 0
TagSet == Tags \cup {Absent, Computed}

\* ---------------------------------------------------------------------------------------------
\* operations as functions  (S = [b |-> bins columns, p |-> pixels columns, nv |-> name vector])
\* lnv: the name vector a LIVE Cooler object shows.  The object reads its tables from the file at every access but caches the
\* chromosome names when it is opened; rename_chroms refreshes the object it is given, and no other one.
Empty == [b |-> [c \in ColNames |-> Absent], p |-> [c \in ColNames |-> Absent], nv |-> 1, lnv |-> 1]

Cols(S, tbl) == IF tbl = "bins" THEN S.b ELSE S.p
SetCol(S, tbl, c, t) == IF tbl = "bins" THEN [S EXCEPT !.b[c] = t] ELSE [S EXCEPT !.p[c] = t]

\* append: refused (ValueError, nothing changes) when the column exists and force is off
AppendOk(S, tbl, c, force) == Cols(S, tbl)[c] = Absent \/ force
AppendCol(S, tbl, c, t, force) == IF AppendOk(S, tbl, c, force) THEN SetCol(S, tbl, c, t) ELSE S

\* API balancing with store=True: always (re)writes the column
BalanceAPI(S, c) == SetCol(S, "bins", c, Computed)

\* CLI: exit status and effect
\*   --check            : 0 iff the column exists; never writes
\*   --stdout           : never writes (the existing column is not even looked at), exit 0
\*   column exists      : without --force exit 1 and nothing changes; with --force replaced
BalanceCLIExit(S, c, force, check, stdout) ==
  IF check THEN (IF S.b[c] # Absent THEN 0 ELSE 1)
  ELSE IF stdout THEN 0
  ELSE IF S.b[c] # Absent /\ ~force THEN 1 ELSE 0
BalanceCLI(S, c, force, check, stdout) ==
  IF check \/ stdout THEN S
  ELSE IF S.b[c] # Absent /\ ~force THEN S
  ELSE SetCol(S, "bins", c, Computed)

Rename(S, k, throughLive) == [S EXCEPT !.nv = k, !.lnv = IF throughLive THEN k ELSE @]

\* observables
BalancedReadPossible(S, c) == S.b[c] # Absent        \* matrix(balance=c) answers iff the column exists

\* ---------------------------------------------------------------------------------------------
\* the state machine explored by TLC (MC_Session): any history of MaxOps operations
VARIABLES S, last, nops
vars == <<S, last, nops>>

Init == S = Empty /\ last = [op |-> "none"] /\ nops = 0

DoAppend == \E tbl \in {"bins", "pixels"}, c \in ColNames, t \in Tags, f \in BOOLEAN :
  /\ S' = AppendCol(S, tbl, c, t, f)
  /\ last' = [op |-> "append", tbl |-> tbl, c |-> c, t |-> t, force |-> f, ok |-> AppendOk(S, tbl, c, f)]
DoBalanceAPI == \E c \in ColNames :
  /\ S' = BalanceAPI(S, c)
  /\ last' = [op |-> "balance_api", c |-> c]
DoBalanceCLI == \E c \in ColNames, f \in BOOLEAN, chk \in BOOLEAN, so \in BOOLEAN :
  /\ S' = BalanceCLI(S, c, f, chk, so)
  /\ last' = [op |-> "balance_cli", c |-> c, force |-> f, check |-> chk, stdout |-> so,
              exit |-> BalanceCLIExit(S, c, f, chk, so)]
DoRename == \E k \in 1..NameVecs, tl \in BOOLEAN :
  /\ S' = Rename(S, k, tl)
  /\ last' = [op |-> "rename", k |-> k, live |-> tl]

Next == nops < MaxOps /\ nops' = nops + 1 /\ (DoAppend \/ DoBalanceAPI \/ DoBalanceCLI \/ DoRename)
Spec == Init /\ [][Next]_vars

\* ---------------------------------------------------------------------------------------------
\* properties
TypeOK == /\ S.b \in [ColNames -> TagSet] /\ S.p \in [ColNames -> TagSet] /\ S.nv \in 1..NameVecs /\ S.lnv \in 1..NameVecs
\* the live object is never AHEAD of the file, and it is current after a renaming made through it
LiveNamesFollow == [][/\ (last'.op = "rename" /\ last'.live) => S'.lnv = S'.nv
                      /\ (last'.op # "rename") => S'.lnv = S.lnv]_vars

\* an existing column changes only through an operation that was asked to replace it
NoSilentOverwrite ==
  [][\A tbl \in {"bins", "pixels"}, c \in ColNames :
        (Cols(S, tbl)[c] # Absent /\ Cols(S', tbl)[c] # Cols(S, tbl)[c]) =>
            \/ (last'.op = "append" /\ last'.force /\ last'.tbl = tbl /\ last'.c = c)
            \/ (last'.op = "balance_api" /\ tbl = "bins" /\ last'.c = c)
            \/ (last'.op = "balance_cli" /\ last'.force /\ ~last'.check /\ ~last'.stdout /\ tbl = "bins" /\ last'.c = c)]_vars
\* columns never disappear
ColumnsPersist == [][\A tbl \in {"bins", "pixels"}, c \in ColNames : Cols(S, tbl)[c] # Absent => Cols(S', tbl)[c] # Absent]_vars
\* --check and --stdout are read-only
ReadOnlyModes == [][(last'.op = "balance_cli" /\ (last'.check \/ last'.stdout)) => S' = S]_vars
\* an operation touches the one column of the one table it names; renaming touches no column
FrameCondition ==
  [][/\ \A tbl \in {"bins", "pixels"}, c \in ColNames :
          Cols(S', tbl)[c] # Cols(S, tbl)[c] =>
              /\ last'.op \in {"append", "balance_api", "balance_cli"} /\ last'.c = c
              /\ (last'.op = "append" => last'.tbl = tbl) /\ (last'.op # "append" => tbl = "bins")
     /\ ((S'.nv # S.nv \/ S'.lnv # S.lnv) => last'.op = "rename")]_vars
\* the exit status of the CLI tells whether the file now holds weights under that name
ExitTellsTruth ==
  [][(last'.op = "balance_cli" /\ ~last'.stdout /\ last'.exit = 0) => S'.b[last'.c] # Absent]_vars
\* weights are stored by balancing only: a refused or read-only call never leaves computed weights behind
ComputedOnlyByBalancing ==
  [][\A c \in ColNames : (S'.b[c] = Computed /\ S.b[c] # Computed) => last'.op \in {"balance_api", "balance_cli"}]_vars
=============================================================================
