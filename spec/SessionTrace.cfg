SPECIFICATION TSpec
CONSTANTS
  ColNames = {"weight", "KR", "x"}
  Tags = {1, 2, 3}
  NameVecs = 2
  MaxOps = 0
POSTCONDITION Post
CHECK_DEADLOCK FALSE
