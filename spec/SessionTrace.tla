----------------------------- MODULE SessionTrace -----------------------------
(* Trace specification for in-place mutation of a collection (Session.tla): a    *)
(* recorded history of append / balance (API, CLI) / rename operations on one     *)
(* real file; after every operation the harness projects what a LIVE Cooler       *)
(* object (opened before the history) and a FRESH one show; TLC steps the model.  *)
EXTENDS Session, TraceKit

VARIABLE l

ApplyOp(T, op) ==
  IF op.op = "append" THEN AppendCol(T, op.tbl, op.c, op.t, op.force)
  ELSE IF op.op = "balance_api" THEN BalanceAPI(T, op.c)
  ELSE IF op.op = "balance_cli" THEN BalanceCLI(T, op.c, op.force, op.check, op.stdout)
  ELSE Rename(T, op.k, op.on = "live")

OutcomeOk(T, op, o) ==
  IF op.op = "append" THEN (o.err = "") = AppendOk(T, op.tbl, op.c, op.force) /\ (o.err # "" => o.err = "ValueError")
  ELSE IF op.op = "balance_cli" THEN o.err = "" /\ o.exit = BalanceCLIExit(T, op.c, op.force, op.check, op.stdout)
  ELSE o.err = ""

ViewClauses(T, v, tag) ==
  << <<"binsColumns:" \o tag, \A c \in ColNames : v.b[c] = T.b[c]>>,
     <<"pixelsColumns:" \o tag, \A c \in ColNames : v.p[c] = T.p[c]>>,
     <<"chromNames:" \o tag, v.nv = (IF tag = "live" THEN T.lnv ELSE T.nv)>>,
     <<"balancedReadIffColumn:" \o tag, \A c \in ColNames : v.readable[c] = BalancedReadPossible(T, c)>>,
     <<"namesResolveByPosition:" \o tag, v.extents = << <<0, 4>>, <<4, 7>>, <<7, 9>> >> >>,
     <<"dataUntouched:" \o tag, v.px_ok>> >>

RECURSIVE Hist(_, _, _, _)
Hist(T, ops, steps, k) ==
  IF k > Len(ops) THEN <<>>
  ELSE LET T2 == ApplyOp(T, ops[k])
           o == steps[k]
       IN << <<"outcomeAsSpecified", OutcomeOk(T, ops[k], o)>>,
             <<"stdoutPrintsWeights", ops[k].op # "balance_cli" \/ ~ops[k].stdout \/ ops[k].check \/ o.printed>> >>
          \o ViewClauses(T2, o.live, "live") \o ViewClauses(T2, o.fresh, "fresh")
          \o Hist(T2, ops, steps, k + 1)

Clauses(e) ==
  CASE e.drv = "ss.history" -> Hist(Empty, e.case.ops, e.obs.steps, 1)
    [] OTHER -> << <<"unknownDriver", FALSE>> >>

TInit == l = 1 /\ KitInit /\ Init            \* the state machine's own variables are not used by the trace spec
TNext == /\ UNCHANGED vars
         /\ l <= Len(TraceLog)
         /\ Verdict(TraceLog[l].id, IF Crashed(TraceLog[l]) THEN CrashVerdict ELSE Clauses(TraceLog[l]))
         /\ l' = l + 1
TSpec == TInit /\ [][TNext]_<<l, vars>>
Post == KitPost
=============================================================================
