-------------------------------- MODULE Store --------------------------------
(* The file / collection store: HDF5 object graph with hard, soft and external   *)
(* links, and the file-level operations on it (properties C15, C17, C18, the     *)
(* history clauses of C02/C07/C08).                                            *)
(*                                                                             *)
(* State S = [root, objs]:                                                     *)
(*   root : file name -> oid of the root group, 0 = the file does not exist     *)
(*   objs : sequence of objects (oid = position); an object is                  *)
(*          [kids : name -> link, c : content]                                  *)
(*          content 0 = a plain group; c > 0 = a complete cooler whose matrix    *)
(*          is content number c (the drivers create coolers whose pixel value    *)
(*          is c, so content is observable)                                     *)
(*   link : [k |-> "none"] | [k |-> "h", o |-> oid] | [k |-> "s", p |-> path]    *)
(*          | [k |-> "x", f |-> file, p |-> path]                               *)
(* Paths are sequences of names, <<>> = root.  Objects that are no longer        *)
(* reachable stay in objs (garbage); nothing observes them.                     *)
(*                                                                             *)
(* The operations transcribe src/cooler/fileops.py:_copy (cp / mv / ln) and the  *)
(* group preparation of create() (create/_create.py:612-623), with h5py's link   *)
(* semantics as probed on this image: every creating operation creates missing   *)
(* parent groups; an existing destination name is an error that changes nothing; *)
(* overwrite=True truncates the destination FILE (an error when source and       *)
(* destination are the same file); a copy is deep over hard links and keeps soft *)
(* and external links as links; hard links across files are refused; a soft link *)
(* across files becomes an external link; mv = hard link + delete within a file. *)
EXTENDS CoolerData

CONSTANTS Files, NameSeq          \* NameSeq: the names in h5py's (alphabetical) iteration order
Names == Range(NameSeq)
NoLink == [k |-> "none"]
HardTo(o) == [k |-> "h", o |-> o]
SoftTo(p) == [k |-> "s", p |-> p]
ExtTo(f, p) == [k |-> "x", f |-> f, p |-> p]
NewObj(c) == [kids |-> [n \in Names |-> NoLink], c |-> c]
EmptyStore == [root |-> [f \in Files |-> 0], objs |-> <<>>]

Parent(p) == SubSeq(p, 1, Len(p) - 1)
IsPrefixPath(a, b) == Len(a) <= Len(b) /\ SubSeq(b, 1, Len(a)) = a
LastName(p) == p[Len(p)]
Fuel == 8          \* depth bound for walks over object TREES (hard links only; acyclic by construction)
ResFuel == 64      \* step bound for path RESOLUTION through soft / external links (only link loops exhaust it: a history of
                   \* n operations holds at most n links of at most two names each)

-----------------------------------------------------------------------------
(* path resolution through links; the result is [f, o]: the object and the file it lives in (o = 0: the path
   does not resolve - no such name, dangling link, or a link loop that exhausts the fuel) *)
RECURSIVE Res(_, _, _, _, _)
Res(S, f, o, rest, fuel) ==
  IF o = 0 THEN [f |-> f, o |-> 0]
  ELSE IF Len(rest) = 0 THEN [f |-> f, o |-> o]
  ELSE IF fuel = 0 THEN [f |-> f, o |-> 0]
  ELSE LET lk == S.objs[o].kids[Head(rest)] IN
       IF lk.k = "none" THEN [f |-> f, o |-> 0]
       ELSE IF lk.k = "h" THEN Res(S, f, lk.o, Tail(rest), fuel - 1)
       ELSE IF lk.k = "s" THEN Res(S, f, S.root[f], lk.p \o Tail(rest), fuel - 1)
       ELSE IF S.root[lk.f] = 0 THEN [f |-> lk.f, o |-> 0]
       ELSE Res(S, lk.f, S.root[lk.f], lk.p \o Tail(rest), fuel - 1)
ResolveFO(S, f, p) == IF S.root[f] = 0 THEN [f |-> f, o |-> 0] ELSE Res(S, f, S.root[f], p, ResFuel)
Resolve(S, f, p) == ResolveFO(S, f, p).o
\* the file in which the object named by p lives (differs from f behind an external link)
FileOfPath(S, f, p) == ResolveFO(S, f, p).f
\* a link loop: some path of length CycleDepth resolves (no acyclic state of the explored histories is that deep)
CycleDepth == 7
RECURSIVE DeepFrom(_, _, _, _)
DeepFrom(S, f, o, d) ==
  IF d = 0 THEN TRUE
  ELSE \E nm \in Names :
         LET lk == S.objs[o].kids[nm]
             t == IF lk.k = "h" THEN [f |-> f, o |-> lk.o]
                  ELSE IF lk.k = "s" THEN ResolveFO(S, f, lk.p)
                  ELSE IF lk.k = "x" THEN ResolveFO(S, lk.f, lk.p)
                  ELSE [f |-> f, o |-> 0]
         IN t.o # 0 /\ DeepFrom(S, t.f, t.o, d - 1)
\* ... or the resolution of some short path runs in circles (links that only point at each other)
RECURSIVE Spins(_, _, _, _, _)
Spins(S, f, o, rest, fuel) ==
  IF o = 0 \/ Len(rest) = 0 THEN FALSE
  ELSE IF fuel = 0 THEN TRUE
  ELSE LET lk == S.objs[o].kids[Head(rest)] IN
       IF lk.k = "none" THEN FALSE
       ELSE IF lk.k = "h" THEN Spins(S, f, lk.o, Tail(rest), fuel - 1)
       ELSE IF lk.k = "s" THEN Spins(S, f, S.root[f], lk.p \o Tail(rest), fuel - 1)
       ELSE IF S.root[lk.f] = 0 THEN FALSE
       ELSE Spins(S, lk.f, S.root[lk.f], lk.p \o Tail(rest), fuel - 1)
ShortPaths == {<<>>} \cup {<<a>> : a \in Names} \cup {<<a, b>> : a \in Names, b \in Names}
Cyclic(S) ==
  \E f \in Files : S.root[f] # 0 /\
     (DeepFrom(S, f, S.root[f], CycleDepth) \/ \E p \in ShortPaths : Spins(S, f, S.root[f], p, ResFuel))
\* does the resolution of path p of file f pass through an external link INTO file g?
RECURSIVE ResEnters(_, _, _, _, _, _)
ResEnters(S, f, o, rest, fuel, g) ==
  IF o = 0 \/ Len(rest) = 0 \/ fuel = 0 THEN FALSE
  ELSE LET lk == S.objs[o].kids[Head(rest)] IN
       IF lk.k = "none" THEN FALSE
       ELSE IF lk.k = "h" THEN ResEnters(S, f, lk.o, Tail(rest), fuel - 1, g)
       ELSE IF lk.k = "s" THEN ResEnters(S, f, S.root[f], lk.p \o Tail(rest), fuel - 1, g)
       ELSE lk.f = g \/ (S.root[lk.f] # 0 /\ ResEnters(S, lk.f, S.root[lk.f], lk.p \o Tail(rest), fuel - 1, g))
Enters(S, f, p, g) == S.root[f] # 0 /\ ResEnters(S, f, S.root[f], p, ResFuel, g)
\* the link stored under the last name of p (NoLink if the parent does not resolve)
LinkAt(S, f, p) ==
  IF Len(p) = 0 THEN NoLink
  ELSE LET po == Resolve(S, f, Parent(p)) IN IF po = 0 THEN NoLink ELSE S.objs[po].kids[LastName(p)]
NameTaken(S, f, p) == Len(p) = 0 \/ LinkAt(S, f, p).k # "none"

\* observables
IsCoolerAt(S, f, p) == LET o == Resolve(S, f, p) IN o # 0 /\ S.objs[o].c > 0
ContentAt(S, f, p) == LET o == Resolve(S, f, p) IN IF o = 0 THEN -1 ELSE S.objs[o].c   \* -1 nothing, 0 group, c cooler
ListingOf(S, f, U) == {p \in U : IsCoolerAt(S, f, p)}

-----------------------------------------------------------------------------
(* building blocks *)
AddObj(S, ob) == [S EXCEPT !.objs = Append(@, ob)]
NewOid(S) == Len(S.objs) + 1
SetKid(S, o, name, lk) == [S EXCEPT !.objs[o].kids[name] = lk]
\* create the groups along path p of file f that do not exist yet (through links); returns the new
\* state; the path resolves afterwards unless a dangling link is in the way
RECURSIVE Ensure(_, _, _, _)
Ensure(S, f, p, k) ==        \* first k names exist already or have just been created
  IF k >= Len(p) THEN S
  ELSE LET pre == SubSeq(p, 1, k)
           po == Resolve(S, f, pre)
           nm == p[k + 1]
       IN IF po = 0 THEN S
          ELSE IF S.objs[po].kids[nm].k = "none"
               THEN Ensure(SetKid(AddObj(S, NewObj(0)), po, nm, HardTo(NewOid(S))), f, p, k + 1)
               ELSE Ensure(S, f, p, k + 1)
EnsureParents(S, f, p) == Ensure(S, f, Parent(p), 0)
\* put link lk under path p (parents created); precondition: the name is free and the parent resolves
PutLink(S, f, p, lk) ==
  LET S1 == EnsureParents(S, f, p) IN SetKid(S1, Resolve(S1, f, Parent(p)), LastName(p), lk)
CanPut(S, f, p) ==
  /\ Len(p) > 0 /\ ~NameTaken(S, f, p)
  /\ Resolve(EnsureParents(S, f, p), f, Parent(p)) # 0
\* deep copy of object o (hard links followed, soft/external links kept); returns [S, top]
RECURSIVE CopyObj(_, _, _)
RECURSIVE CopyKids(_, _, _, _, _)
CopyKids(S, src, dst, k, fuel) ==          \* copies the kids NameSeq[k..] of object src into object dst
  IF k > Len(NameSeq) THEN S
  ELSE LET nm == NameSeq[k]
           lk == S.objs[src].kids[nm]
       IN IF lk.k = "h" /\ fuel > 0
            THEN LET r == CopyObj(S, lk.o, fuel - 1)
                 IN CopyKids(SetKid(r.S, dst, nm, HardTo(r.top)), src, dst, k + 1, fuel)
            ELSE CopyKids(SetKid(S, dst, nm, IF lk.k = "h" THEN NoLink ELSE lk), src, dst, k + 1, fuel)
CopyObj(S, o, fuel) ==
  LET S1 == AddObj(S, NewObj(S.objs[o].c))
      top == NewOid(S)
  IN [S |-> CopyKids(S1, o, top, 1, fuel), top |-> top]
\* objects reachable from o over hard links (cycle detection for ln / mv)
RECURSIVE Reach(_, _, _)
Reach(S, o, fuel) ==
  IF fuel = 0 THEN {o}
  ELSE {o} \cup UNION {Reach(S, S.objs[o].kids[n].o, fuel - 1) : n \in {m \in Names : S.objs[o].kids[m].k = "h"}}

-----------------------------------------------------------------------------
(* create(uri, mode) - the group preparation; the result is a complete cooler with content c *)
OpenFile(S, f, mode) ==      \* "w": truncate / create; "a": create if absent
  IF mode = "w" \/ S.root[f] = 0
    THEN [AddObj(S, NewObj(0)) EXCEPT !.root[f] = NewOid(S)]
    ELSE S
CreateOk(S, f, p, mode) ==
  LET S1 == OpenFile(S, f, mode) IN
    Len(p) = 0 \/ (/\ Resolve(EnsureParents(S1, f, p), f, Parent(p)) # 0
                   /\ FileOfPath(EnsureParents(S1, f, p), f, Parent(p)) = f)     \* not through an external link
Create(S, f, p, c, mode) ==
  LET S1 == OpenFile(S, f, mode) IN
  IF Len(p) = 0 THEN [S1 EXCEPT !.objs[S1.root[f]].c = c]          \* root: tables replaced, everything else stays
  ELSE IF ~CreateOk(S, f, p, mode) THEN S1
  ELSE LET S2 == EnsureParents(S1, f, p)
           po == Resolve(S2, f, Parent(p))
       IN SetKid(AddObj(S2, NewObj(c)), po, LastName(p), HardTo(NewOid(S2)))  \* an existing name is deleted (the LINK) first

-----------------------------------------------------------------------------
(* fileops._copy: kind in {"cp", "mv", "ln", "lns"} *)
SameFile(sf, df) == sf = df
\* does the call succeed?
CopyOk(S, kind, sf, sp, df, dp, ow) ==
  /\ S.root[sf] # 0
  /\ ~(SameFile(sf, df) /\ ow)
  /\ LET S1 == IF ow \/ S.root[df] = 0 THEN OpenFile(S, df, "w") ELSE S IN
     IF SameFile(sf, df)
       THEN /\ CanPut(S1, df, dp)
            /\ kind \in {"cp", "mv", "ln"} => Resolve(S1, sf, sp) # 0
            /\ kind \in {"mv", "ln"} => FileOfPath(S1, sf, sp) = sf        \* no hard link to an object of another file
       ELSE /\ kind # "ln"
            /\ (kind \in {"cp", "mv"}) => Resolve(S1, sf, sp) # 0
            /\ IF Len(dp) = 0 THEN kind \in {"cp", "mv"} ELSE CanPut(S1, df, dp)
\* the state after the call (also when it fails: the destination file may have been created / truncated)
\* cross-file copy onto the (empty) root of df: the members one by one, EACH NAMED BY ITS PATH (so a member that is a soft or
\* external link is copied as the object it resolves to, unlike links deeper down, which stay links), then the attributes
RECURSIVE CopyTopKids(_, _, _, _, _)
CopyTopKids(S, sf, sp, dst, k) ==
  IF k > Len(NameSeq) THEN S
  ELSE LET nm == NameSeq[k]
           t == Resolve(S, sf, sp \o <<nm>>)
       IN IF t = 0 THEN CopyTopKids(S, sf, sp, dst, k + 1)          \* no such member (dangling members: outside the domain)
          ELSE LET r == CopyObj(S, t, Fuel) IN CopyTopKids(SetKid(r.S, dst, nm, HardTo(r.top)), sf, sp, dst, k + 1)
CopyRootInto(S, sf, sp, df) ==
  LET dr == S.root[df]
      S2 == CopyTopKids(S, sf, sp, dr, 1)
  IN [S2 EXCEPT !.objs[dr].c = S.objs[Resolve(S, sf, sp)].c]
Copy(S, kind, sf, sp, df, dp, ow) ==
  IF S.root[sf] = 0 \/ (SameFile(sf, df) /\ ow) THEN S
  ELSE
  LET S1 == IF ow \/ S.root[df] = 0 THEN OpenFile(S, df, "w") ELSE S IN
  IF ~CopyOk(S, kind, sf, sp, df, dp, ow)
    THEN IF SameFile(sf, df) /\ kind \in {"ln", "mv"} /\ CanPut(S1, df, dp) /\ Resolve(S1, sf, sp) # 0
            THEN EnsureParents(S1, df, dp)     \* refused link to an object of another file: the parents exist by then
            ELSE S1
  ELSE IF SameFile(sf, df)
    THEN IF kind = "lns" THEN PutLink(S1, df, dp, SoftTo(sp))
         ELSE IF kind = "ln" THEN PutLink(S1, df, dp, HardTo(Resolve(S1, sf, sp)))
         ELSE IF kind = "mv"
           THEN LET S2 == PutLink(S1, df, dp, HardTo(Resolve(S1, sf, sp)))
                IN SetKid(S2, Resolve(S2, sf, Parent(sp)), LastName(sp), NoLink)
         ELSE LET r == CopyObj(S1, Resolve(S1, sf, sp), Fuel) IN PutLink(r.S, df, dp, HardTo(r.top))
    ELSE IF kind = "lns" THEN PutLink(S1, df, dp, ExtTo(sf, sp))
         ELSE IF Len(dp) = 0 THEN CopyRootInto(S1, sf, sp, df)
         ELSE LET r == CopyObj(S1, Resolve(S1, sf, sp), Fuel) IN PutLink(r.S, df, dp, HardTo(r.top))
\* inputs the model does not cover (the drivers never generate them):
\*  - a source that is the root for same-file operations and for links (cycles / root cannot be unlinked)
\*  - hard links or moves that would make a group its own descendant
\*  - a cross-file copy onto a root that already has members (h5py copies member by member and may stop half way)
InDomain(S, kind, sf, sp, df, dp, ow) ==
  /\ (SameFile(sf, df) \/ kind = "lns") => Len(sp) > 0
  /\ (SameFile(sf, df) /\ kind \in {"ln", "mv"} /\ Resolve(S, sf, sp) # 0 /\ CanPut(S, df, dp)) =>
        Resolve(EnsureParents(S, df, dp), df, Parent(dp)) \notin Reach(S, Resolve(S, sf, sp), Fuel)
  /\ (~SameFile(sf, df) /\ Len(dp) = 0 /\ kind \in {"cp", "mv"} /\ ~ow /\ S.root[df] # 0) =>
        (S.objs[S.root[df]].c = 0 /\ \A n \in Names : S.objs[S.root[df]].kids[n].k = "none")
  /\ kind = "mv" => SameFile(sf, df)          \* mv is documented (and judged) within one file
  \* a cross-file copy whose SOURCE path leads, through an external link, into the DESTINATION file: HDF5 refuses to open
  \* a file a second time with other access flags while it is open for writing (h5py: RuntimeError) - not modelled
  /\ (~SameFile(sf, df) /\ kind = "cp") => ~Enters(S, sf, sp, df)
  \* ... and, when the destination is the root, members of the source that are links must resolve, outside the destination file
  /\ (~SameFile(sf, df) /\ kind = "cp" /\ Len(dp) = 0 /\ Resolve(S, sf, sp) # 0) =>
        \A nm \in Names : LinkAt(S, sf, sp \o <<nm>>).k \in {"s", "x"} =>
              (Resolve(S, sf, sp \o <<nm>>) # 0 /\ ~Enters(S, sf, sp \o <<nm>>, df))
  \* a destination whose parent path runs through a soft or external link is not modelled (h5py fails in
  \* several ways there: 'address undefined', writes into the other file, ...)
  /\ \A j \in 1..(Len(dp) - 1) : LinkAt(S, df, SubSeq(dp, 1, j)).k \in {"none", "h"}
-----------------------------------------------------------------------------
(* The ATTRIBUTE layer of a group (C15: "touch nothing else", "reads identically to the source"): attributes as a
   function name -> value (values as text).  h5py's attrs.update(src) overlays: a name of the source takes the source's
   value, every other name keeps its own. *)
CoolerAttrNames == {"format", "format-url", "format-version", "generated-by", "creation-date", "bin-type", "bin-size",
                    "storage-mode", "nchroms", "nbins", "sum", "nnz", "genome-assembly", "metadata"}
Overlay(dst, src) == [n \in DOMAIN dst \cup DOMAIN src |-> IF n \in DOMAIN src THEN src[n] ELSE dst[n]]
\* cp across files onto the root of an existing file (fileops._copy, root branch): members are copied one by one, the
\* root keeps its own attributes except where the source names the same attribute
AttrsAfterCopyOntoRoot(dstBefore, src) == Overlay(dstBefore, src)
\* create() in append mode at the root: the four tables are replaced, the attributes are written over (write_info)
UnrelatedKept(before, after) == \A n \in DOMAIN before \ CoolerAttrNames : n \in DOMAIN after /\ after[n] = before[n]
\* write mode replaces the file: nothing of the old root is left
NothingForeignLeft(before, after) == \A n \in DOMAIN before \ CoolerAttrNames : n \notin DOMAIN after
=============================================================================
