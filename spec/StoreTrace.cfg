SPECIFICATION Spec
CONSTANTS
  Files <- FilesC
  NameSeq <- Names3
POSTCONDITION Post
CHECK_DEADLOCK FALSE
