------------------------------ MODULE StoreTrace ------------------------------
(* Trace specification for histories of file-level operations (C15).  One event  *)
(* = one history on two real files; after EVERY operation the harness projects,  *)
(* for both files and every path of depth <= 2, what the path holds (nothing /    *)
(* plain group / cooler with content number c, read through the public API), the  *)
(* answer of the recognition test and the listing.  The fold below applies the    *)
(* operations of Store.tla to the model state and compares after each step.       *)
EXTENDS Store, TraceKit

VARIABLE l

Names3 == <<"a", "b", "n">>
FilesC == {"f1", "f2"}
All(s, P(_)) == \A k \in DOMAIN s : P(s[k])

OpInDomain(S, op) ==
  IF op.op = "create" THEN CreateOk(S, op.f, op.p, op.mode)
  ELSE InDomain(S, op.op, op.sf, op.sp, op.df, op.dp, op.ow)
Apply(S, op) ==
  IF op.op = "create" THEN Create(S, op.f, op.p, op.c, op.mode)
  ELSE Copy(S, op.op, op.sf, op.sp, op.df, op.dp, op.ow)
OkOf(S, op) ==
  IF op.op = "create" THEN TRUE ELSE CopyOk(S, op.op, op.sf, op.sp, op.df, op.dp, op.ow)

FileClauses(S, f, fo, U) ==
  << <<"existsAsModel", fo.exists = (S.root[f] # 0)>>,
     <<"contentAsModel", All(fo.paths, LAMBDA r : r.content = ContentAt(S, f, r.p))>>,
     \* the attributes a collection reads with are those it was created with (odd content numbers are created with
     \* assembly "asm<c>" and metadata {content: c}, even ones with neither): nothing survives a re-creation
     <<"attributesBelongToContent", All(fo.paths, LAMBDA r : r.content <= 0 \/
          (r.asm = (IF r.content % 2 = 1 THEN r.content ELSE 0) /\ r.meta = (IF r.content % 2 = 1 THEN r.content ELSE 0)))>>,
     <<"recognitionAnswers", All(fo.paths, LAMBDA r : r.raised = "")>>,
     <<"recognitionAsModel", All(fo.paths, LAMBDA r : r.is_cooler = IsCoolerAt(S, f, r.p))>>,
     <<"listingAnswers", fo.listing_raised = "">>,
     <<"listingAsModel", fo.listing_raised # "" \/ Range(fo.listing) = ListingOf(S, f, U)>> >>

RECURSIVE Hist(_, _, _, _, _)
Hist(S, ops, steps, U, k) ==
  IF k > Len(ops) THEN <<>>
  ELSE IF ~OpInDomain(S, ops[k]) THEN <<>>              \* outside the modelled domain: the rest is not judged
  ELSE IF Cyclic(Apply(S, ops[k])) THEN <<>>            \* the operation closed a link loop: not judged further
  ELSE LET S2 == Apply(S, ops[k])
           o == steps[k]
       IN << <<"outcomeAsModel", o.ok = OkOf(S, ops[k])>> >>
          \o FileClauses(S2, "f1", o.f1, U) \o FileClauses(S2, "f2", o.f2, U)
          \o Hist(S2, ops, steps, U, k + 1)

(* st.rootattrs: an operation whose destination is the ROOT of an existing file that carries attributes of its own
   (written by another tool, or the root of a multi-resolution file): cp across files, create in append / write mode *)
AttrFun(pairs) == [n \in {pr[1] : pr \in Range(pairs)} |-> (CHOOSE pr \in Range(pairs) : pr[1] = n)[2]]
RootAttrClauses(e) ==
  LET before == AttrFun(e.obs.before)
      after == AttrFun(e.obs.after)
      src == AttrFun(e.obs.src)
      op == e.case.op
  IN
  IF op = "cp" THEN
  << <<"outcomeOk", e.obs.err = "">>,
     <<"recognitionAnswers", e.obs.is_cooler>>,
     <<"copyReadsAsSource", e.obs.dst_info = e.obs.src_info /\ e.obs.dst_content = e.obs.src_content>>,
     <<"attributesAsModel", after = AttrsAfterCopyOntoRoot(before, src)>>,
     <<"foreignMembersKept", e.obs.foreign_member_after>> >>
  ELSE IF op = "create_a" THEN
  << <<"outcomeOk", e.obs.err = "">>,
     <<"recognitionAnswers", e.obs.is_cooler>>,
     <<"unrelatedAttributesIntact", UnrelatedKept(before, after)>>,
     <<"attributesBelongToContent", e.obs.dst_assembly = e.case.assembly /\ e.obs.dst_meta_c = e.case.c /\ e.obs.dst_content = e.case.c>>,
     <<"foreignMembersKept", e.obs.foreign_member_after>> >>
  ELSE
  << <<"outcomeOk", e.obs.err = "">>,
     <<"recognitionAnswers", e.obs.is_cooler>>,
     <<"writeModeReplacesFile", NothingForeignLeft(before, after) /\ ~e.obs.foreign_member_after>>,
     <<"attributesBelongToContent", e.obs.dst_assembly = e.case.assembly /\ e.obs.dst_meta_c = e.case.c /\ e.obs.dst_content = e.case.c>> >>

\* how many operations of the history were judged (for the evidence)
Clauses(e) ==
  CASE e.drv = "st.history" -> Hist(EmptyStore, e.case.ops, e.obs.steps, Range(e.case.paths), 1)
    [] e.drv = "st.rootattrs" -> RootAttrClauses(e)
    [] OTHER -> << <<"unknownDriver", FALSE>> >>

Init == l = 1 /\ KitInit
Next == /\ l <= Len(TraceLog)
        /\ Verdict(TraceLog[l].id, IF Crashed(TraceLog[l]) THEN CrashVerdict ELSE Clauses(TraceLog[l]))
        /\ l' = l + 1
Spec == Init /\ [][Next]_l
Post == KitPost
=============================================================================
