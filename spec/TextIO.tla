-------------------------------- MODULE TextIO --------------------------------
(* Text export and import (property C16).                                        *)
(*                                                                              *)
(* Layer D: DumpRows - what `cooler dump` must print for a collection and an      *)
(* option vector, defined through the library queries of CoolerData / RangeQuery  *)
(* (PixelsInWindow, SubBlockRecords, BalancedScaled, Covering) with each option's *)
(* documented effect applied; field layouts of the loaders: which input column    *)
(* ends up under which name.                                                    *)
(* Layer A: AssignNames - how cli/load.py and cli/cload.py hand the layout to     *)
(* pandas.read_csv (usecols in the order given, names in field order; pandas      *)
(* assigns names in ASCENDING column order).                                     *)
EXTENDS RangeQuery, Extent

\* options: [hasr, r: <<c,s,e>>, hasr2, r2, fill, join, balanced, obids, obstarts]
WindowOf(t, o) ==
  IF ~o.hasr THEN <<0, Len(t), 0, Len(t)>>
  ELSE LET a == Covering(t, o.r[1], o.r[2], o.r[3])
           b == IF o.hasr2 THEN Covering(t, o.r2[1], o.r2[2], o.r2[3]) ELSE a
       IN <<a[1], a[2], b[1], b[2]>>
\* one output row for record p = <<i, j, v>>
RowOf(t, p, o, W) ==
  LET ids == IF o.join
               THEN <<t[p[1] + 1][1], t[p[1] + 1][2] + (IF o.obstarts THEN 1 ELSE 0), t[p[1] + 1][3],
                      t[p[2] + 1][1], t[p[2] + 1][2] + (IF o.obstarts THEN 1 ELSE 0), t[p[2] + 1][3]>>
               ELSE <<p[1] + (IF o.obids THEN 1 ELSE 0), p[2] + (IF o.obids THEN 1 ELSE 0)>>
      bal == IF o.balanced THEN <<BalancedScaled(p[3], W[p[1] + 1], W[p[2] + 1], FALSE)>> ELSE <<>>
  IN ids \o <<p[3]>> \o bal
\* without lower-triangle fill (or in square mode): the stored records inside the window, in storage order
DumpRowsDirect(c, t, o, W) ==
  LET recs == PixelsInWindow(c, WindowOf(t, o)) IN [k \in DOMAIN recs |-> RowOf(t, recs[k], o, W)]
\* with fill: the records of the full matrix inside the window (any order, each once)
DumpRowSetFilled(c, t, o, W) == {RowOf(t, p, o, W) : p \in SubBlockRecords(c, WindowOf(t, o))}
UsesFill(c, o) == o.fill /\ c.mode = "symm"
HeaderOf(o) ==
  (IF o.join THEN <<"chrom1", "start1", "end1", "chrom2", "start2", "end2">> ELSE <<"bin1_id", "bin2_id">>)
  \o <<"count">> \o (IF o.balanced THEN <<"balanced">> ELSE <<>>)

-----------------------------------------------------------------------------
(* field layouts: names[k] is to be read from input column cols[k] (0-based) *)
\* intended meaning
Intended(names, cols) == [k \in DOMAIN names |-> <<names[k], cols[k]>>]
\* pandas.read_csv(usecols=cols, names=names): names are assigned to the used columns in ascending order
PandasAssigns(names, cols) ==
  LET sorted == SetToSortSeq(Range(cols), <) IN [k \in DOMAIN names |-> <<names[k], sorted[k]>>]
\* after "fix: ... field layout": the names are handed over sorted by their column number
SortedByColumn(names, cols) ==
  LET order == SetToSortSeq(DOMAIN cols, LAMBDA a, b : cols[a] < cols[b]) IN [k \in DOMAIN order |-> names[order[k]]]
AssignNames(names, cols) == PandasAssigns(SortedByColumn(names, cols), cols)
AsSet(s) == Range(s)
=============================================================================
