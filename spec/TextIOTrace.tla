------------------------------ MODULE TextIOTrace ------------------------------
(* Trace specification for text export / import (C16).                            *)
EXTENDS TextIO, Ingest, Coarsen, TraceKit

VARIABLE l
All(s, P(_)) == \A k \in DOMAIN s : P(s[k])
Coll(case) == [n |-> Len(case.table), mode |-> case.mode, px |-> case.px]

(* tx.dump: `cooler dump` with an option vector *)
DumpClauses(e) ==
  LET c == Coll(e.case)
      t == e.case.table
      o == e.case.o
      W == e.case.wexp
  IN
  << <<"dumpRuns", e.obs.err = "">>,
     <<"dumpEqualsQuery", e.obs.err # "" \/
          IF UsesFill(c, o)
            THEN Range(e.obs.rows) = DumpRowSetFilled(c, t, o, W) /\ Cardinality(Range(e.obs.rows)) = Len(e.obs.rows)
            ELSE e.obs.rows = DumpRowsDirect(c, t, o, W)>>,
     \* (an output without any row may come without the header line: the header is printed with the first chunk)
     <<"headerAsDocumented", e.obs.err # "" \/ ~e.case.header
                             \/ (Len(e.obs.rows) = 0 /\ Len(e.obs.header) = 0) \/ e.obs.header = HeaderOf(o)>> >>

(* tx.layout: pairs / COO / bedGraph-2D files whose columns are laid out in any order *)
LayoutClauses(e) ==
  LET t == e.case.table IN
  << <<"layoutAccepted", e.obs.err = "">>,
     <<"layoutHonoured", e.obs.err # "" \/
          (IF e.case.kind = "coo" THEN e.obs.px = PxBinned(e.case.px, e.case.one_based, e.case.tril)
           ELSE e.obs.px = Binned(t, e.case.recs, e.case.one_based, e.case.tril))>>,
     <<"valueFieldHonoured", e.obs.err # "" \/ ~e.case.has_extra \/ e.obs.extra = e.case.want_extra>> >>

(* tx.roundtrip: dump a cooler as COO / bedGraph-2D text, load it back with the same bin table *)
RoundTripClauses(e) ==
  << <<"roundTrip", e.obs.err = "" /\ e.obs.px = e.case.px /\ e.obs.table = e.case.table
                    /\ e.obs.mode = (IF e.case.mode = "symm" THEN "symmetric-upper" ELSE "square")>> >>
  \o (IF e.obs.err = "" THEN CSRClauses(e.obs.raw) ELSE <<>>)

Nice(start, stop) ==
  LET cand == {start * m * (10 ^ p) : m \in {1, 2, 5}, p \in 0..4} IN SetToSortSeq({x \in cand : x <= stop}, <)
Binary(start, stop) == SetToSortSeq({x \in {start * (2 ^ p) : p \in 0..16} : x <= stop}, <)
ResSpecClauses(e) ==
  LET maxres == e.case.maxres
      cur == e.case.binsize
      Expand(item) ==
        IF item.kind = "n" THEN Range(Nice(item.start, maxres))
        ELSE IF item.kind = "b" THEN Range(Binary(item.start, maxres))
        ELSE IF item.kind = "4dn" THEN {1000, 2000} \cup Range(Nice(5000, maxres))
        ELSE {item.start}
      want == UNION {Expand(e.case.items[j]) : j \in DOMAIN e.case.items} \cup {cur}
  IN
  << <<"resSpecAccepted", e.obs.err = "">>,
     <<"resSpecExpansion", e.obs.err # "" \/ Range(e.obs.levels) = want>> >>

Clauses(e) ==
  CASE e.drv = "tx.dump"      -> DumpClauses(e)
    [] e.drv = "tx.layout"    -> LayoutClauses(e)
    [] e.drv = "tx.roundtrip" -> RoundTripClauses(e)
    [] e.drv = "zm.resspec"   -> ResSpecClauses(e)
    [] OTHER -> << <<"unknownDriver", FALSE>> >>

Init == l = 1 /\ KitInit
Next == /\ l <= Len(TraceLog)
        /\ Verdict(TraceLog[l].id, IF Crashed(TraceLog[l]) THEN CrashVerdict ELSE Clauses(TraceLog[l]))
        /\ l' = l + 1
Spec == Init /\ [][Next]_l
Post == KitPost
=============================================================================
