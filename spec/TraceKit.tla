------------------------------- MODULE TraceKit -------------------------------
(* Shared plumbing of all trace specifications (code -> spec conformance).      *)
(*                                                                             *)
(* A driver writes one JSON object per line (id, drv, case, obs); a trace      *)
(* specification consumes one line per step, evaluates the NAMED clauses of    *)
(* the main specification that apply to it and reports a total verdict:        *)
(* ACCEPT (counted in register 1) or REJECT <id> <<failing clause names>>      *)
(* (printed, counted in register 2).  The post-condition prints a SUMMARY and  *)
(* the harness checks that every line was consumed.  Run with -workers 1.      *)
EXTENDS TLC, TLCExt, Json, IOUtils, Naturals, Integers, Sequences, FiniteSets

TraceLog == ndJsonDeserialize(IOEnv.TRACE_FILE)

KitInit == TLCSet(1, 0) /\ TLCSet(2, 0) /\ TLCSet(3, 0)     \* 3: number of clauses evaluated

RECURSIVE JoinNames(_, _)
JoinNames(bad, k) ==
  IF k > Len(bad) THEN "" ELSE bad[k][1] \o (IF k < Len(bad) THEN "," ELSE "") \o JoinNames(bad, k + 1)

\* clauses: a sequence of <<name, BOOLEAN>>; the verdict line is a single string (never wrapped)
Verdict(id, clauses) ==
  LET bad == SelectSeq(clauses, LAMBDA c : ~c[2]) IN
  /\ TLCSet(3, TLCGet(3) + Len(clauses))
  /\ IF Len(bad) = 0
    THEN TLCSet(1, TLCGet(1) + 1)
    ELSE /\ PrintT("REJECT|" \o ToString(id) \o "|" \o JoinNames(bad, 1))
         /\ TLCSet(2, TLCGet(2) + 1)

KitPost ==
  PrintT("SUMMARY|" \o ToString(TLCGet(1)) \o "|" \o ToString(TLCGet(2)) \o "|" \o ToString(Len(TraceLog))
         \o "|" \o ToString(TLCGet("stats").diameter) \o "|" \o ToString(TLCGet(3)))

\* a driver records obs = [crash |-> "...", where |-> "..."] when the code under test raised an
\* exception where a result was expected
Crashed(e) == "crash" \in DOMAIN e.obs
CrashVerdict == << <<"completes", FALSE>> >>

\* helpers for JSON values ------------------------------------------------------
Has(r, f) == f \in DOMAIN r
SeqToSet(s) == {s[k] : k \in DOMAIN s}
IsNoDup(s) == Cardinality(SeqToSet(s)) = Len(s)
=============================================================================
