--------------------------------- MODULE Zoom ---------------------------------
(* A multi-resolution file as a STATEFUL object: how zoomify_cooler and          *)
(* legacy_zoomify (src/cooler/_reduce.py:760-960) build it step by step, what     *)
(* a reader may see between the steps and after a crash (exception or process    *)
(* death: every step opens and closes the output file itself), and what the      *)
(* recognition test answers.  Growth of the specification around C09 / C13.      *)
(*                                                                             *)
(* Levels are named by numbers: resolutions (standard layout, /resolutions/<r>)  *)
(* or zoom indices (legacy layout, /<i>).  A level is "absent", "partial" (its    *)
(* group exists but the collection is not finished: Create!Prepare..before       *)
(* Create!Finish) or "done"; a done level has a CONTENT IDENTITY <<b, f>> =       *)
(* "base b coarsened by the factor f".  Coarsening a level <<b, f>> by m gives    *)
(* <<b, f * m>> - this is the composition law of C08 (model-checked in           *)
(* MC_Coarsen and validated on the code by co.algebra), used here as an axiom.    *)
(*                                                                             *)
(* Standard layout (zoomify_cooler):                                            *)
(*   Truncate+CopyBase(b) for every base, in ANY order (a Python set), the first  *)
(*   one truncating the output file;                                            *)
(*   for i in order of increasing resolution, skipping bases:                    *)
(*      BeginLevel(r)  (group created)   FinishLevel(r)  (format attribute)      *)
(*   reading level pred(r) = the largest smaller member that divides r;          *)
(*   Mark: root attribute format = HDF5::MCOOL.                                  *)
(* Legacy layout (legacy_zoomify): level n = copy of the base (n = quad-tree      *)
(*   depth), then levels n-1 .. 0, each coarsening the one above by 2; then the   *)
(*   root attributes max-zoom and one bin size per level.                        *)
EXTENDS Naturals, Integers, Sequences, FiniteSets

CONSTANTS Wanted,        \* standard: the set of resolutions to write (bases included); legacy: unused
          Bases,         \* the base resolutions (subset of Wanted)
          Legacy,        \* BOOLEAN
          Depth          \* legacy: the quad-tree depth n

VARIABLES lv,            \* level name -> "absent" | "partial" | "done"
          content,       \* level name -> <<base, factor>> (meaningful when done)
          fmt,           \* standard: root carries format = HDF5::MCOOL; legacy: root carries max-zoom
          pc,            \* "copy" | "levels" | "mark" | "finished" | "crashed"
          cur            \* the level being written (0 = none)
vars == <<lv, content, fmt, pc, cur>>

Max(S) == CHOOSE x \in S : \A y \in S : y <= x
Min(S) == CHOOSE x \in S : \A y \in S : x <= y
Names == IF Legacy THEN 0..Depth ELSE Wanted
\* the predecessor relation of get_multiplier_sequence (Coarsen!PredOf on sets): 0 = none
Pred(r) == LET c == {q \in Wanted : q < r /\ r % q = 0} IN IF c = {} THEN 0 ELSE Max(c)
RECURSIVE Derivable(_)
Derivable(r) == r \in Bases \/ \E q \in Wanted : q < r /\ r % q = 0 /\ Derivable(q)
Refused == \E r \in Wanted \ Bases : Pred(r) = 0
\* the base a derived level descends from, following predecessors
RECURSIVE RootOf(_)
RootOf(r) == IF r \in Bases THEN r ELSE RootOf(Pred(r))
RECURSIVE Pow2(_)
Pow2(n) == IF n = 0 THEN 1 ELSE 2 * Pow2(n - 1)

Init == /\ lv = [r \in Names |-> "absent"] /\ content = [r \in Names |-> <<0, 0>>]
        /\ fmt = FALSE /\ pc = "copy" /\ cur = 0

---------------------------------------------------------------------------
(* standard layout *)
Copied == {b \in Bases : lv[b] = "done"}
CopyBase(b) == /\ ~Legacy /\ pc = "copy" /\ ~Refused /\ b \in Bases \ Copied
               \* the first copy truncates the file (mode w): whatever was there is gone - Init has nothing
               /\ lv' = [lv EXCEPT ![b] = "done"] /\ content' = [content EXCEPT ![b] = <<b, 1>>]
               /\ pc' = IF Copied \cup {b} = Bases THEN "levels" ELSE "copy"
               /\ UNCHANGED <<fmt, cur>>
NextLevel == LET todo == {r \in Wanted \ Bases : lv[r] = "absent"} IN IF todo = {} THEN 0 ELSE Min(todo)
BeginLevel == /\ ~Legacy /\ pc = "levels" /\ cur = 0 /\ NextLevel # 0
              /\ cur' = NextLevel /\ lv' = [lv EXCEPT ![NextLevel] = "partial"]
              /\ UNCHANGED <<content, fmt, pc>>
FinishLevel == /\ ~Legacy /\ pc = "levels" /\ cur # 0
               /\ lv' = [lv EXCEPT ![cur] = "done"]
               /\ content' = [content EXCEPT ![cur] = <<content[Pred(cur)][1], content[Pred(cur)][2] * (cur \div Pred(cur))>>]
               /\ cur' = 0 /\ UNCHANGED <<fmt, pc>>
ToMark == /\ ~Legacy /\ pc = "levels" /\ cur = 0 /\ NextLevel = 0 /\ pc' = "mark" /\ UNCHANGED <<lv, content, fmt, cur>>
Mark == /\ pc = "mark" /\ fmt' = TRUE /\ pc' = "finished" /\ UNCHANGED <<lv, content, cur>>

---------------------------------------------------------------------------
(* legacy layout: names are zoom indices; base at Depth; index i has factor 2^(Depth - i) *)
LCopy == /\ Legacy /\ pc = "copy"
         /\ lv' = [lv EXCEPT ![Depth] = "done"] /\ content' = [content EXCEPT ![Depth] = <<1, 1>>]
         /\ pc' = "levels" /\ UNCHANGED <<fmt, cur>>
LNext == LET todo == {i \in Names : lv[i] = "absent"} IN IF todo = {} THEN -1 ELSE Max(todo)
LBegin == /\ Legacy /\ pc = "levels" /\ cur = 0 /\ LNext # -1
          /\ cur' = LNext + 1                       \* cur holds index + 1 (0 = none)
          /\ lv' = [lv EXCEPT ![LNext] = "partial"] /\ UNCHANGED <<content, fmt, pc>>
LFinish == /\ Legacy /\ pc = "levels" /\ cur # 0
           /\ lv' = [lv EXCEPT ![cur - 1] = "done"]
           /\ content' = [content EXCEPT ![cur - 1] = <<content[cur][1], content[cur][2] * 2>>]
           /\ cur' = 0 /\ UNCHANGED <<fmt, pc>>
LToMark == /\ Legacy /\ pc = "levels" /\ cur = 0 /\ LNext = -1 /\ pc' = "mark" /\ UNCHANGED <<lv, content, fmt, cur>>

\* exception or process death between two steps: nothing is undone, nothing more is written
Crash == /\ pc \in {"copy", "levels", "mark"} /\ pc' = "crashed" /\ UNCHANGED <<lv, content, fmt, cur>>

Next == (\E b \in Bases : CopyBase(b)) \/ BeginLevel \/ FinishLevel \/ ToMark \/ Mark
        \/ LCopy \/ LBegin \/ LFinish \/ LToMark \/ Crash
Spec == Init /\ [][Next]_vars

---------------------------------------------------------------------------
(* what a reader sees: fileops.is_multires_file / list_coolers *)
Done == {r \in Names : lv[r] = "done"}
\* standard: root format attribute AND the first level BY NAME (decimal strings compare lexically, so "10" < "5") is a
\* cooler; legacy: the level named 0 is a cooler.  `first` is given by the trace (the harness cannot sort for the model
\* without becoming an oracle): here, conservatively, SOME present level.
RecognisedStd(first) == fmt /\ lv[first] = "done"
RecognisedLegacy == lv[0] = "done"

(* properties *)
\* C09: every level that exists as a cooler equals DIRECT coarsening of a base by the ratio of resolutions, whatever the
\* chain of intermediate levels was
LevelsAreDirectCoarsenings ==
  \A r \in Done : IF Legacy THEN content[r] = <<1, Pow2(Depth - r)>>
                  ELSE content[r][1] \in Bases /\ content[r][1] * content[r][2] = r /\ content[r][1] = RootOf(r)
\* a level is read only when it is done (the predecessor of the level being written)
NeverReadsUnfinished == cur # 0 => IF Legacy THEN lv[cur] = "done" ELSE (Pred(cur) # 0 /\ lv[Pred(cur)] = "done")
\* C09 + C13: the file is recognised as multi-resolution only when every wanted level is complete
RecognisedOnlyWhenComplete ==
  IF Legacy THEN RecognisedLegacy => Done = Names
  ELSE \A first \in Names : RecognisedStd(first) => Done = Names
\* at most one level is unfinished, and it is the one being written
AtMostOnePartial == \A r \in Names : lv[r] = "partial" => (IF Legacy THEN cur = r + 1 ELSE cur = r)
\* what a crash leaves: a PREFIX of the step order (used by the trace specification to judge killed runs)
PrefixShape ==
  IF Legacy THEN \A i, j \in Names : (i < j /\ lv[i] # "absent") => lv[j] = "done"
  ELSE /\ (\E r \in Wanted \ Bases : lv[r] # "absent") => Bases \subseteq Done
       /\ \A r, s \in Wanted \ Bases : (r < s /\ lv[s] # "absent") => lv[r] = "done"
\* the run ends (no deadlock short of finished / crashed) unless the set is refused
Terminal == pc \in {"finished", "crashed"} \/ (~Legacy /\ Refused)
=============================================================================
