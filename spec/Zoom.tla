--------------------------------- MODULE Zoom ---------------------------------
(* A multi-resolution file as a STATEFUL object: how zoomify_cooler and          *)
(* legacy_zoomify (src/cooler/_reduce.py:760-960) build it step by step, what     *)
(* a reader may see between the steps and after a crash (exception or process    *)
(* death: every step opens and closes the output file itself), and what the      *)
(* recognition test answers.  Growth of the specification around C09 / C13.      *)
(*                                                                             *)
(* Levels are named by numbers: resolutions (standard layout, /resolutions/<r>)  *)
(* or zoom indices (legacy layout, /<i>).  A level is "absent", "partial" (its    *)
(* group exists but the collection is not finished: Create!Prepare .. before     *)
(* Create!Finish) or "done"; a done level has a CONTENT IDENTITY <<b, f>> =       *)
(* "base b coarsened by the factor f".  Coarsening a level <<b, f>> by m gives    *)
(* <<b, f * m>> - the composition law of C08 (model-checked in MC_Coarsen and     *)
(* validated on the code by co.algebra), used here as an axiom.                  *)
(*                                                                             *)
(* Standard layout (zoomify_cooler):                                            *)
(*   CopyBase(b) for every base, in ANY order (a Python set), the first one      *)
(*   truncating the output file;                                                *)
(*   for the derived levels in increasing order: BeginLevel (group created)      *)
(*   FinishLevel (format attribute), reading the predecessor level;              *)
(*   Mark: root attribute format = HDF5::MCOOL.                                  *)
(* Legacy layout (legacy_zoomify): level n = copy of the base (n = quad-tree      *)
(*   depth), then levels n-1 .. 0, each coarsening the one above by 2; then the   *)
(*   root attributes (max-zoom, one bin size per level).                         *)
(* The instance (wanted set, bases, layout) is chosen in Init and never changes. *)
EXTENDS ZoomOps, TLC

CONSTANTS MaxRes, MaxDepth,
          MarkEarly      \* a broken variant (the multires mark written before the levels) that TLC must refute

VARIABLES wanted, bases, legacy, depth,     \* the instance
          lv,            \* level name -> "absent" | "partial" | "done"
          content,       \* level name -> <<base, factor>> (meaningful when done)
          mark,          \* standard: root carries format = HDF5::MCOOL; legacy: root carries max-zoom
          pc,            \* "copy" | "levels" | "mark" | "finished" | "crashed" | "refused"
          cur            \* the level being written + 1 (0 = none)
vars == <<wanted, bases, legacy, depth, lv, content, mark, pc, cur>>
inst == <<wanted, bases, legacy, depth>>

Names == IF legacy THEN 0..depth ELSE wanted
Pred(r) == ZPred(wanted, bases, r)

Init == /\ \/ /\ legacy = FALSE /\ depth = 0
              /\ \E W \in SUBSET (1..MaxRes) : W # {} /\ wanted = W /\ \E B \in SUBSET W : B # {} /\ bases = B
           \/ /\ legacy = TRUE /\ wanted = {} /\ bases = {} /\ depth \in 0..MaxDepth
        /\ lv = [r \in Names |-> "absent"] /\ content = [r \in Names |-> <<0, 0>>]
        /\ mark = FALSE /\ pc = "copy" /\ cur = 0

---------------------------------------------------------------------------
(* standard layout *)
Refuse == /\ ~legacy /\ pc = "copy" /\ ZRefused(wanted, bases) /\ pc' = "refused"       \* before anything is written
          /\ UNCHANGED <<inst, lv, content, mark, cur>>
Copied == {b \in bases : lv[b] = "done"}
CopyBase(b) == /\ ~legacy /\ pc = "copy" /\ ~ZRefused(wanted, bases) /\ b \in bases \ Copied
               /\ lv' = [lv EXCEPT ![b] = "done"] /\ content' = [content EXCEPT ![b] = <<b, 1>>]
               /\ pc' = IF Copied \cup {b} = bases THEN "levels" ELSE "copy"
               /\ UNCHANGED <<inst, mark, cur>>
Todo == {r \in wanted \ bases : lv[r] = "absent"}
BeginLevel == /\ ~legacy /\ pc = "levels" /\ cur = 0 /\ Todo # {}
              /\ cur' = ZMin(Todo) + 1 /\ lv' = [lv EXCEPT ![ZMin(Todo)] = "partial"]
              /\ UNCHANGED <<inst, content, mark, pc>>
FinishLevel == /\ ~legacy /\ pc = "levels" /\ cur # 0
               /\ LET r == cur - 1 IN
                    /\ lv' = [lv EXCEPT ![r] = "done"]
                    /\ content' = [content EXCEPT ![r] = <<content[Pred(r)][1], content[Pred(r)][2] * (r \div Pred(r))>>]
               /\ cur' = 0 /\ UNCHANGED <<inst, mark, pc>>
ToMark == /\ pc = "levels" /\ cur = 0 /\ (IF legacy THEN \A i \in Names : lv[i] # "absent" ELSE Todo = {})
          /\ pc' = "mark" /\ UNCHANGED <<inst, lv, content, mark, cur>>
Mark == /\ pc = "mark" /\ mark' = TRUE /\ pc' = "finished" /\ UNCHANGED <<inst, lv, content, cur>>

(* legacy layout: names are zoom indices; the base sits at index depth; index i has factor 2^(depth - i) *)
LCopy == /\ legacy /\ pc = "copy"
         /\ lv' = [lv EXCEPT ![depth] = "done"] /\ content' = [content EXCEPT ![depth] = <<1, 1>>]
         /\ pc' = "levels" /\ UNCHANGED <<inst, mark, cur>>
LTodo == {i \in Names : lv[i] = "absent"}
LBegin == /\ legacy /\ pc = "levels" /\ cur = 0 /\ LTodo # {}
          /\ cur' = ZMax(LTodo) + 1 /\ lv' = [lv EXCEPT ![ZMax(LTodo)] = "partial"]
          /\ UNCHANGED <<inst, content, mark, pc>>
LFinish == /\ legacy /\ pc = "levels" /\ cur # 0
           /\ LET i == cur - 1 IN
                /\ lv' = [lv EXCEPT ![i] = "done"]
                /\ content' = [content EXCEPT ![i] = <<content[i + 1][1], content[i + 1][2] * 2>>]
           /\ cur' = 0 /\ UNCHANGED <<inst, mark, pc>>

EarlyMark == /\ MarkEarly /\ pc = "levels" /\ ~mark /\ mark' = TRUE /\ UNCHANGED <<inst, lv, content, pc, cur>>

\* exception or process death between two steps: nothing is undone, nothing more is written
Crash == /\ pc \in {"copy", "levels", "mark"} /\ pc' = "crashed" /\ UNCHANGED <<inst, lv, content, mark, cur>>

Next == Refuse \/ (\E b \in bases : CopyBase(b)) \/ BeginLevel \/ FinishLevel \/ ToMark \/ Mark
        \/ LCopy \/ LBegin \/ LFinish \/ Crash \/ EarlyMark
Spec == Init /\ [][Next]_vars /\ WF_vars(Refuse \/ (\E b \in bases : CopyBase(b)) \/ BeginLevel \/ FinishLevel \/ ToMark \/ Mark
                                         \/ LCopy \/ LBegin \/ LFinish)

---------------------------------------------------------------------------
Done == {r \in Names : lv[r] = "done"}
\* fileops.is_multires_file: standard - root format attribute AND the first level BY NAME (whichever that is) is a
\* cooler; legacy - the level named 0 is a cooler
RecognisedStd(first) == mark /\ lv[first] = "done"
RecognisedLegacy == lv[0] = "done"

(* properties *)
\* C09: every level that exists as a cooler equals DIRECT coarsening of a base by the ratio of resolutions, whatever the
\* chain of intermediate levels was; a base level is the copy of its own cooler
LevelsAreDirectCoarsenings ==
  \A r \in Done : IF legacy THEN content[r] = <<1, Pow2(depth - r)>>
                  ELSE /\ content[r][1] \in bases /\ content[r][1] * content[r][2] = r
                       /\ content[r][1] = ZRootOf(wanted, bases, r)
                       /\ r \in bases => content[r] = <<r, 1>>
\* a level is read only when it is done
NeverReadsUnfinished == cur # 0 => IF legacy THEN lv[cur] = "done" ELSE (Pred(cur - 1) # 0 /\ lv[Pred(cur - 1)] = "done")
\* C09 + C13: the file is recognised as multi-resolution only when every level is complete
RecognisedOnlyWhenComplete ==
  IF legacy THEN RecognisedLegacy => Done = Names
  ELSE \A first \in Names : RecognisedStd(first) => Done = Names
\* at most one level is unfinished, and it is the one being written
AtMostOnePartial == \A r \in Names : lv[r] = "partial" => cur = r + 1
\* what a crash leaves is a PREFIX of the step order - the predicate the trace specification applies to killed runs
PrefixShape == IF legacy THEN PrefixShapeLegacy(depth, lv) ELSE PrefixShapeStd(wanted, bases, lv, mark)
\* nothing is written for a refused set
RefusedWritesNothing == pc = "refused" => (Done = {} /\ ~mark /\ \A r \in Names : lv[r] = "absent")
RefusalIsNonDerivability == (~legacy /\ pc = "refused") => \E r \in wanted : ZPred(wanted, bases, r) = 0 /\ r \notin bases
\* liveness: every run ends finished, crashed or refused
Terminates == <>(pc \in {"finished", "crashed", "refused"})
FinishedIsComplete == pc = "finished" => (Done = Names /\ mark)
\* the quad-tree depth the code computes is the least cover (small scope)
ASSUME DepthAgreesOnSmallScope == \A total \in 1..40, b0 \in 1..3, tile \in {1, 2, 4} :
                  /\ QuadtreeDepthA(total, b0, tile) = QuadtreeDepth(total, b0, tile)
                  /\ DepthIsMinimalCover(total, b0, tile, QuadtreeDepth(total, b0, tile))
=============================================================================
