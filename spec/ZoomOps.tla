------------------------------- MODULE ZoomOps -------------------------------
(* Operators of the multi-resolution-file model (Zoom.tla) that do not depend   *)
(* on its state, so that the trace specification can apply them to OBSERVED     *)
(* files: the predecessor relation on a set of resolutions, derivability, the   *)
(* quad-tree depth of the legacy layout, and the SHAPE a file can have after a  *)
(* prefix of the construction steps (= what a crash or process death leaves).   *)
EXTENDS Naturals, Integers, Sequences, FiniteSets

ZMax(S) == CHOOSE x \in S : \A y \in S : y <= x
ZMin(S) == CHOOSE x \in S : \A y \in S : x <= y
RECURSIVE Pow2(_)
Pow2(n) == IF n = 0 THEN 1 ELSE 2 * Pow2(n - 1)

\* get_multiplier_sequence on sets (repaired, F30): a base has no predecessor; otherwise the largest smaller member
\* that divides r; 0 = none
ZPred(W, B, r) == IF r \in B THEN 0
                  ELSE LET c == {q \in W : q < r /\ r % q = 0} IN IF c = {} THEN 0 ELSE ZMax(c)
ZRefused(W, B) == \E r \in W \ B : ZPred(W, B, r) = 0
RECURSIVE ZRootOf(_, _, _)
ZRootOf(W, B, r) == IF r \in B THEN r ELSE ZRootOf(W, B, ZPred(W, B, r))

\* legacy layout: number of zoom levels = the least n such that 2^n tiles of `tile` bins of width b0 cover `total`
\* (Layer D); the code computes ceil(log2(ceil(total / (tile * b0)))) in floating point (Layer A below)
RECURSIVE DepthFrom(_, _)
DepthFrom(total, len) == IF len >= total THEN 0 ELSE 1 + DepthFrom(total, 2 * len)
QuadtreeDepth(total, b0, tile) == DepthFrom(total, tile * b0)
CeilDiv(a, b) == (a + b - 1) \div b
RECURSIVE CeilLog2From(_, _)
CeilLog2From(x, p) == IF p >= x THEN 0 ELSE 1 + CeilLog2From(x, 2 * p)
QuadtreeDepthA(total, b0, tile) == CeilLog2From(CeilDiv(total, tile * b0), 1)
DepthIsMinimalCover(total, b0, tile, n) ==
  /\ Pow2(n) * tile * b0 >= total
  /\ n > 0 => Pow2(n - 1) * tile * b0 < total

\* The shape of the file after a PREFIX of the construction steps.  lvf: level name -> "absent" | "partial" | "done";
\* mark: the root carries the multires mark.  Standard layout: bases are copied first, in any order; derived levels
\* follow in increasing order, each partial before it is done; the mark comes last.
PrefixShapeStd(W, B, lvf, mark) ==
  /\ \A b \in B : lvf[b] \in {"absent", "done"}                                   \* a base copy is one step
  /\ (\E r \in W \ B : lvf[r] # "absent") => \A b \in B : lvf[b] = "done"
  /\ \A r, s \in W \ B : (r < s /\ lvf[s] # "absent") => lvf[r] = "done"
  /\ mark => \A r \in W : lvf[r] = "done"
\* Legacy layout: level n (the copy of the base) first, then n-1 .. 0
PrefixShapeLegacy(n, lvf) ==
  /\ lvf[n] \in {"absent", "done"}
  /\ \A i, j \in 0..n : (i < j /\ lvf[i] # "absent") => lvf[j] = "done"
=============================================================================
