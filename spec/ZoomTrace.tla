------------------------------ MODULE ZoomTrace ------------------------------
(* Trace specification for the construction of multi-resolution files           *)
(* (Zoom.tla): runs of zoomify_cooler / `cooler zoomify --legacy` that complete,  *)
(* are refused, or are KILLED (process death right before the j-th file open of   *)
(* the writers) - the file left behind is projected level by level and judged     *)
(* with the predicates TLC verified as invariants of Zoom!Spec.                  *)
EXTENDS Coarsen, ZoomOps, TraceKit

VARIABLE l

LevelsOf(o) == Range(o.levels)
Lv(o, r) == IF \E x \in LevelsOf(o) : x.name = r THEN (CHOOSE x \in LevelsOf(o) : x.name = r).state ELSE "absent"
Rec(o, r) == CHOOSE x \in LevelsOf(o) : x.name = r
Listed(o) == {ls[Len(ls)] : ls \in Range(o.listing)}          \* last path component, as a string

StdClauses(e) ==
  LET t == e.case.table
      b0 == e.case.binsize
      B == Range(e.case.base_res)
      W == Range(e.case.resolutions) \cup B
      o == e.obs
      lvf == [r \in W |-> Lv(o, r)]
      refused == ZRefused(W, B)
  IN
  << <<"refusedIffNonDerivable", (o.outcome = "error") = refused>>,
     <<"refusedWritesNothing", ~refused \/ ((\A r \in W : lvf[r] = "absent") /\ ~o.multires)>>,
     <<"killedOnlyWhenAsked", o.outcome # "killed" \/ e.case.kill > 0>>,
     <<"stateIsAPrefixOfTheSteps", PrefixShapeStd(W, B, lvf, o.mark)>>,
     <<"atMostOnePartial", Cardinality({r \in W : lvf[r] = "partial"}) <= 1>>,
     <<"noStrayLevels", \A x \in LevelsOf(o) : x.name \in W>>,
     <<"doneLevelsAreDirectCoarsenings", \A r \in W : lvf[r] # "done" \/
          /\ Rec(o, r).px = (IF r = b0 THEN e.case.px ELSE CoarsenBy(t, r \div b0, e.case.px, <<"sum">>))
          /\ Rec(o, r).table = (IF r = b0 THEN t ELSE CoarsenTable(t, r \div b0))>>,
     <<"recognisedOnlyWhenComplete", ~o.multires \/ \A r \in W : lvf[r] = "done">>,
     <<"recognitionIsMarkAndFirstLevel", o.multires => o.mark>>,
     <<"listingIsDoneLevels", Listed(o) = {ToString(r) : r \in {x \in W : lvf[x] = "done"}}>>,
     <<"finishedIsComplete", o.outcome # "ok" \/ ((\A r \in W : lvf[r] = "done") /\ o.mark /\ o.multires)>> >>

LegacyClauses(e) ==
  LET t == e.case.table
      b0 == e.case.binsize
      total == SumSeq(ChromLenSeq(t))
      n == QuadtreeDepth(total, b0, e.case.tile)
      o == e.obs
      lvf == [i \in 0..n |-> Lv(o, i)]
  IN
  << <<"killedOnlyWhenAsked", o.outcome # "killed" \/ e.case.kill > 0>>,
     <<"completesUnlessKilled", o.outcome \in {"ok", "killed"}>>,
     <<"depthIsLeastCover", o.outcome # "ok" \/ o.maxzoom = n>>,
     <<"noStrayLevels", \A x \in LevelsOf(o) : x.name \in 0..n>>,
     <<"stateIsAPrefixOfTheSteps", PrefixShapeLegacy(n, lvf)>>,
     <<"atMostOnePartial", Cardinality({i \in 0..n : lvf[i] = "partial"}) <= 1>>,
     <<"levelIsDirectCoarsening", \A i \in 0..n : lvf[i] # "done" \/
          /\ Rec(o, i).px = (IF i = n THEN e.case.px ELSE CoarsenBy(t, Pow2(n - i), e.case.px, <<"sum">>))
          /\ Rec(o, i).table = (IF i = n THEN t ELSE CoarsenTable(t, Pow2(n - i)))>>,
     <<"recognisedOnlyWhenComplete", ~o.multires \/ \A i \in 0..n : lvf[i] = "done">>,
     <<"recognitionIsLevelZero", o.multires = (lvf[0] = "done")>>,
     <<"levelBinsizesRecorded", o.outcome # "ok" \/ \A i \in 0..n : Rec(o, i).attr_binsize = b0 * Pow2(n - i)>>,
     <<"finishedIsComplete", o.outcome # "ok" \/ ((\A i \in 0..n : lvf[i] = "done") /\ o.multires)>> >>

DepthClauses(e) ==
  << <<"depthIsLeastCover", DepthIsMinimalCover(e.case.total, e.case.binsize, e.case.tile, e.obs.n)>>,
     <<"drift:depthAsLayerA", e.obs.n = QuadtreeDepthA(e.case.total, e.case.binsize, e.case.tile)>> >>

Clauses(e) ==
  CASE e.drv = "zm.steps" -> IF e.case.layout = "legacy" THEN LegacyClauses(e) ELSE StdClauses(e)
    [] e.drv = "zm.depth" -> DepthClauses(e)
    [] OTHER -> << <<"unknownDriver", FALSE>> >>

Init == l = 1 /\ KitInit
Next == /\ l <= Len(TraceLog)
        /\ Verdict(TraceLog[l].id, IF Crashed(TraceLog[l]) THEN CrashVerdict ELSE Clauses(TraceLog[l]))
        /\ l' = l + 1
Spec == Init /\ [][Next]_l
Post == KitPost
=============================================================================
