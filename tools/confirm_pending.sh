#!/bin/sh
# confirm every seeded mutant that has no "confirmed" verdict yet (sequentially; each takes ~1-3 min)
cd /verif
for d in seeded/*/; do
  n=$(basename $d)
  if ! grep -q '"confirmed"' $d/meta.json; then tools/mutants.py confirm $n; fi
done
