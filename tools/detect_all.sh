#!/bin/sh
# Mutation regression: re-run, for every seeded change, the quick checks that are recorded as detecting it (default: the check
# of its own property) against a scratch copy of the patched source; prints one line per (mutant, check) and a MISSED list.
# usage: tools/detect_all.sh [parallelism] [name-glob]
cd "$(dirname "$0")/.."
P=${1:-4}
G=${2:-*}
for d in seeded/$G/; do
  n=$(basename $d)
  [ -f $d/meta.json ] || continue
  grep -q '"neutralised_by_fix"' $d/meta.json && continue      # equivalent to HEAD since a fix commit
  props=$(/venv/bin/python -c "
import json;m=json.load(open('$d/meta.json'));print(' '.join(m.get('detected_by') or [m['property']]))")
  echo "$n $props"
done | xargs -P $P -L 1 sh -c 'tools/mutants.py detect "$@" 2>&1 | grep -E " rc |patch failed"' _ | tee /tmp/detect_all.out
echo "---- not detected / broken:"
grep -E " rc (0|2) |patch failed" /tmp/detect_all.out || echo "(none)"
