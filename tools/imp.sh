#!/bin/sh
# tools/imp.sh <Cxx> <round>: import both mutants of /tmp/mut/<Cxx>r<round>_out, fix meta, remove the agent's worktree
cd /verif
id=$1; r=$2
for x in A B; do
  [ -d /tmp/mut/${id}r${r}_out/$x ] || continue
  tools/mutants.py import ${id}r${r} $x /tmp/mut/${id}r${r}_out/$x
  /venv/bin/python - <<PY
import json
p='/verif/seeded/${id}r${r}${x}/meta.json'; m=json.load(open(p)); m['property']='${id}'; m['round']=${r}; json.dump(m,open(p,'w'),indent=1)
PY
done
git -C /repo worktree remove --force /tmp/mut/${id}r${r} 2>/dev/null
rm -rf /tmp/mut/${id}r${r}_tmp
