#!/venv/bin/python
"""Regenerates MANIFEST.json from the table below (keeps it valid at all times)."""
import json
import os

ROOT = os.path.dirname(os.path.dirname(os.path.abspath(__file__)))
ALL = [f"C{k:02d}" for k in range(1, 21)]

CLAIMED = {
    "C10": dict(
        text=("Decides the INTEGER-DECIDABLE part of the property (stated limits in level_note). Balance.tla defines on integer data: the "
              "pre-marginalisation filters (zero d diagonals, zero trans pixels in cis mode), marginals as bincount(bin1)+bincount("
              "bin2), the bin filters (min_nnz, min_count, blacklist, zero/NaN initial weights, MAD-max on the sub-family where the "
              "median absolute deviation of the log marginals is 0), 'no remaining data' per matrix / per chromosome, hence the exact "
              "set of bins that must carry NaN; and an exact WITNESS family (uniform filtered marginals S in {1,4,16,64}: one "
              "iteration, variance 0, weights exactly 1/sqrt(S), scale S, converged; per chromosome in cis mode; two equal "
              "chromosomes in trans mode). Real balance_cooler / cooler-balance CLI runs on random integer matrices x modes x "
              "ignore_diags x min_nnz x min_count x blacklist x initial weights x rescaling x chunk sizes, on witness matrices and on "
              "the MAD-decidable family; TLC computes the expected NaN set / weights / scale from the integer data and compares "
              "exactly (TLC itself checks that generated witness cases are witnesses). In trans-only mode the witness clause asks for "
              "row sums 1 as the property states; the code's weights omit the chromosome-size factor of its own iteration - open "
              "known finding F19, classified by TLC through the clause name."),
        design_ref="DESIGN.md section 6 C10, section 7",
        note=("NOT decided by this technique (floating point): the flatness bound for general matrices, MAD-max outside its decidable "
              "sub-family, convergence of general inputs. Trusted: TLC; exactness of power-of-two arithmetic in IEEE floats."),
        technique="TLA+ specification of the filter pipeline and an exact witness family, evaluated by TLC on recorded balancing runs",
        category="model_checking"),
    "C11": dict(
        text=("Balance.tla / MC_Balance: TLC checks for ALL nnz<=12 x chunk sizes that the clipped spans partition [0,nnz) (and every "
              "sub-range, cis mode), and models split-apply-combine as processes (5 workers finishing in ANY order, reducer folding "
              "in completion order): every chunk folded exactly once, final accumulator = total for all 326 partial schedules. "
              "Conformance: the real split().prepare().pipe().reduce() pipeline is driven through a recording map that evaluates "
              "and yields chunks in sequential / reversed / randomly permuted completion order for chunk sizes from 1 pixel to "
              "beyond nnz; TLC validates the recorded spans, every per-chunk partial marginal and the total against the integer "
              "specification; full balance_cooler runs are repeated under 6-12 (chunk size, map) schedules incl. real multiprocess "
              "pools (map, imap, imap_unordered) and TLC requires identical NaN sets, equal convergence flags and weights equal "
              "within 2^-19."),
        design_ref="DESIGN.md section 6 C11, section 7",
        note=("NOT decided: coincidence with a dense reference implementation of iterative correction except on C10's exact witness "
              "family. 'Up to floating-point summation order' = weights quantised to 2^-20, slack 2 units, compared by TLC."),
        technique="TLA+ model checking (TLC) of spans and schedules + TLC trace validation of recorded pipelines and schedule sweeps",
        category="model_checking"),
    "C14": dict(
        text=("Selectors.tla: TableSlice (rows of an index range labelled with their row numbers, any column subset) and Annotate (every "
              "pixel gets the attributes of its own two bins, order and index kept) declaratively, and api.annotate's strategy "
              "switch (empty frame / window [min,max] when fewer pixels than bins / whole table; positional take relative to the "
              "window's first label; partial bin tables) as Layer A; TLC checks for ALL pixel sequences of <=3 pixels over 4 bins x "
              "ALL contiguous parts containing the needed bins that the algorithm = the declaration, and for ALL slice spellings "
              "that the selector's normalisation = the array's selection (10 757 states). Real chroms()/bins()/pixels() selectors "
              "are sliced with every spelling and random column subsets (single column, reordered) on enum and integer chromosome "
              "encodings; cooler.annotate is run on pixel subsets of 0..2n+3 pixels in arbitrary order with arbitrary index labels "
              "and id dtypes against data frame / selector / column-restricted selector / partial tables, and pixels(join=True) on "
              "row ranges; TLC validates rows, labels, columns, attributes, order and index."),
        design_ref="DESIGN.md section 6 C14, section 4.11",
        note="Trusted: TLC, structural projection (chromosome names mapped to indexes).",
        technique="TLA+ model checking (TLC) of the annotation strategy + TLC trace validation of real selections/joins", category="model_checking"),
    "C16": dict(
        text=("TextIO.tla defines what `cooler dump` must print (DumpRows) through the library queries of the specification (stored "
              "records in the window in storage order; the full-matrix block with fill-lower; joined coordinates; balanced values; "
              "one-based ids/starts; header) and how the loaders hand a field layout to pandas; TLC checks for ALL layouts of 5 "
              "named fields over 7 columns (2520) that the repaired hand-over reads every name from the requested column, the pinned "
              "one is refuted (F7). Real `cooler dump` runs over all 32 option combinations x whole/one-region/two-region x chunk "
              "sizes on six table shapes are parsed and compared by TLC with DumpRows; `cooler cload pairs` / `cooler load --field` "
              "with non-monotone layouts must produce the pixel table the specification's binning gives for the same records; "
              "dump -> load (COO and bedGraph-2D, zero/one-based) must reproduce pixels, table, storage mode and a ValidCSR file; "
              "the resolution-spec spellings of `cooler zoomify -r` are expanded by the specification."),
        design_ref="DESIGN.md section 6 C16, section 4.11",
        note="Trusted: TLC, text parsing of the dump output (tab-separated integers), power-of-two weights for exact balanced values.",
        technique="TLA+ specification of dump rows / field layouts checked by TLC + TLC trace validation of real CLI runs", category="model_checking"),
    "C05": dict(
        text=("Ingest.tla: TLC checks for ALL bin tables (<=2 chromosomes, length<=3/4, all compositions) x ALL single records with both "
              "anchors anywhere in -1..length+2 on known/unknown chromosomes x zero/one-based x reflect/drop/none (68k states), and "
              "all 2-record bags on one chromosome (224k), that the transcribed sanitizer rejects exactly the out-of-chromosome "
              "records and otherwise yields the pixel of the bins CONTAINING the anchors (division path or search path as selected "
              "by the inferred bin size), each record once, order-independent; the pinned bounds check is kept and refuted (F3). "
              "Real runs: bags of records with anchors on every bin edge / next to it / at 0 / at and beyond the end, unknown "
              "chromosomes, both orientations x options x chunk sizes through sanitize_records+aggregate_records+unordered creation "
              "and `cooler cload pairs`; bedGraph-2D and COO through the API and `cooler load`; `cooler cload tabix` on pysam-built "
              "indexes. TLC validates rejection vs acceptance and the exact pixel table."),
        design_ref="DESIGN.md section 6 C05, section 4.7",
        note="Trusted: TLC, structural projection. pairix loader not covered (module absent).",
        technique="TLA+ model checking (TLC) of record sanitising/binning + TLC trace validation of real ingestion", category="model_checking"),
    "C19": dict(
        text=("Region.tla defines the grammar of region strings structurally (name, numerals = digits with commas, optional decimal "
              "part, unit) and the exact denotation of a numeral on DIGIT SEQUENCES (decimal point moved by the unit's exponent; no "
              "floats, no overflow); TLC cross-checks the digit manipulation against integer arithmetic and the transcribed "
              "(repaired) scaling algorithm against the denotation for all 19 360 small numerals. Every generated string carries its "
              "structure; TLC re-derives the text from the structure, computes the denotation and compares it with what "
              "parse_region_string returned; six kinds of malformed strings, out-of-bounds / unknown-chromosome regions must be "
              "refused with ValueError; formatted regions (plain, commas, spaced, coordinates up to 10^12) parse back to themselves; "
              "66 URI spellings split into the same pair."),
        design_ref="DESIGN.md section 6 C19, section 4.11",
        note="Trusted: TLC, code-point projection. Numerals that do not denote an integer are outside the domain.",
        technique="TLA+ grammar/denotation checked by TLC + TLC trace validation of real parses", category="model_checking"),
    "C08": dict(
        text=("Coarsen.tla: TLC checks for ALL bin tables (<=2 chromosomes, length<=4/5, all compositions) x factors 2..4/6 that the "
              "implementation's coarse table = the declared grouping and that every old bin is re-binned into its group by the path "
              "the code takes (start coordinate div new size when the NEW table has an inferred fixed size, else lookup) - this "
              "needs the repaired bin-size inference (F1); for ALL stores on tables of <=3/4 bins x factors x chunk sizes that the "
              "pruned row partition never splits a coarse row and that span-wise aggregation = block aggregation, sorted, totals "
              "preserved. Real coarsen_cooler / `cooler coarsen` runs on ten table shapes x random stores x k (incl. k > bins) x "
              "chunk sizes x 1-3 processes x 1-2 value columns with sum/max/min x integer and float64 (dyadic) values x root/nested "
              "destination; chains k1 then k2 vs k1*k2 and coarsen(merge) vs merge(coarsened); TLC validates table, pixels, total, "
              "ValidCSR, and the recorded span edges against the model. CoarsenLock.tla specifies the reader/writer lock protocol "
              "of coarsening into the file being read with worker processes (TLC: no read while writing; lazy map and "
              "yield-inside-lock variants refuted); real runs with 2-3 processes are recorded (lock acquisitions/releases of the "
              "iterator and the writer, begin/end of every worker read, ordered by O_APPEND) and TLC replays the events through the "
              "same transition relation (clause lockProtocol)."),
        design_ref="DESIGN.md section 6 C08, section 4.9", note="Trusted: TLC, structural projection; float columns restricted to multiples of 1/4 (exact sums).",
        technique="TLA+ model checking (TLC) of the coarsening algorithm + TLC trace validation of real coarsenings", category="model_checking"),
    "C09": dict(
        text=("Coarsen.tla also transcribes get_multiplier_sequence: TLC checks for ALL resolution sets within 1..8/12 x base subsets "
              "that every predecessor divides its target and that refusal coincides with non-derivability. Real zoomify_cooler / "
              "`cooler zoomify` runs on four fixed-width bases x ladders in any order (with/without the base, mixed predecessors "
              "2-3-6-12, non-derivable members) x one or two base coolers x chunk sizes x workers; EVERY level is read back and "
              "compared by TLC with DIRECT coarsening of the base by the ratio of resolutions (CoarsenBy), the layout with exactly "
              "the requested and base resolutions, multires recognition, ValidCSR per level; the CLI resolution-spec spellings "
              "(N, B, 4DN, <k>N, <k>B, lists) are expanded by the specification and compared with the levels written; output paths "
              "that already hold an earlier multires file, and bases that are not coarsenings of one another (own data and value "
              "dtype, every level derivable from exactly one base) are included; every base cooler carries a bin column and "
              "metadata of its own, so that a base level must be a COPY (TLC invariant BasesAreCopiedNotRederived; the pinned "
              "predecessor relation of defect F30 is refuted); sum / max / min aggregates through the API and --field."),
        design_ref="DESIGN.md section 6 C09, section 4.9", note="Trusted: TLC, structural projection. Bases are fixed-width coolers.",
        technique="TLA+ model checking (TLC) of the predecessor search + TLC trace validation of real multires files", category="model_checking"),
    "C17": dict(
        text=("create_scool is, in terms of the store model, root tables + one append-mode creation per cell (Cells.tla, Store.tla): "
              "Store's frame condition (an append-mode creation changes only the link it names; MC_Store) is what lets every earlier "
              "cell survive the later ones. Real single-cell files are created for six bin-table shapes x 1-4 cells with arbitrary "
              "names and arbitrary (incl. empty) matrices x single table / single table with an extra column / per-cell tables with "
              "per-cell extra columns x pixel input forms; TLC validates: recognised as scool, listing = given names, every cell "
              "reads (ordinary Cooler interface, URI or handle) as exactly the pixel table given and the full matrix derived from "
              "it, common table everywhere, the primary bin and chromosome columns of every cell are the SAME HDF5 objects as the "
              "root's (object addresses), per-cell extra columns kept per cell, ValidCSR for every cell."),
        design_ref="DESIGN.md section 6 C17", note="Trusted: TLC, h5py projection (object addresses via h5o.get_info). Cell names are legal HDF5 link names.",
        technique="TLA+ store model checked by TLC + TLC trace validation of real single-cell files", category="model_checking"),
    "C18": dict(
        text=("Cells.tla defines renaming declaratively (ApplyRename on the name sequence); TLC checks for ALL name vectors (<=3 names over "
              "a 4-name alphabet) and ALL chains of <=2 admissible partial maps that order/count are kept, lookups follow, untouched "
              "names stay and a chain equals stepwise application (63k states). Real rename_chroms is run on coolers with 1-3 "
              "chromosomes (fixed / variable / one-bin tables), chains of 1-3 partial maps (longer/shorter names, swaps, unknown "
              "names), enum and integer chromosome encodings; after every renaming the live object AND a reopened one are "
              "projected and TLC validates: names in original order (chromnames and chromosome table), lengths, bin labels and "
              "coordinates, pixels, extent and two-region matrix fetch by every new name = what the position had before, vanished "
              "names refused, everything else in the file (bins, pixels, indexes, attributes) byte-identical as canonical text, "
              "ValidCSR."),
        design_ref="DESIGN.md section 6 C18", note="Trusted: TLC, h5py/API projection. Maps are injective on the result.",
        technique="TLA+ renaming algebra checked by TLC + TLC trace validation of real renaming chains", category="model_checking"),
    "C15": dict(
        text=("Store.tla models the HDF5 object graph (objects with hard / soft / external links, two files) and the operations "
              "create(w|a), cp, mv, ln (hard), ln (soft; external across files) and overwrite as functions on it, transcribing "
              "fileops._copy and the group preparation of create(). TLC explores ALL histories of 2 (thorough: 3) operations over "
              "all paths of depth <= 2 (36k / 4.5M distinct states) and checks: destination reads as the source; source gone only "
              "for move; a failing operation changes nothing (beyond creating/truncating the destination file); object-level frame "
              "condition (only the link named by the operation changes, no other object's content changes); write mode replaces "
              "the file; re-creation replaces the collection; listing = recognised paths. Conformance: histories (a systematic part "
              "pairing every operation kind with every source/destination pair and follow-up operations that expose sharing vs "
              "independence, plus seeded random histories of 2-12 operations) are executed on two real files; after EVERY operation "
              "both files are projected for 13 paths (content through the API, recognition, listing) and TLC applies the model's "
              "operations step by step and compares (StoreTrace.tla). Spec -> code: behaviours of 6 (thorough: 8) operations generated "
              "by TLC's simulator from the same model (MC_StoreSim) are replayed into the real files in the same way. An attribute "
              "layer (Store!Overlay) judges cp / create(a) / create(w) onto the ROOT of a file that carries attributes of its own."),
        design_ref="DESIGN.md section 6 C15, section 4.2",
        note=("Trusted: TLC, h5py/API projection. Out of the modelled domain (never generated; a history is not judged past such a "
              "step): link loops, root as a link source, cross-file copy onto a non-empty root, destinations behind soft/external "
              "links, a copy whose source path leads through an external link into the destination file; mv is judged within one "
              "file."),
        technique="TLA+ model checking (TLC) of the object-graph store + TLC step-by-step validation of real operation histories",
        category="model_checking"),
    "C13": dict(
        text=("TLC explores (Create.tla / MC_Create) all sequences of up to 2-3 create() calls on one file with destinations root / "
              "group / nested group / sibling and modes w|a, where the environment yields valid chunks, chunks with one invalid "
              "record of each kind, raises from the iterator, or crashes between any two steps of the writer (prepare group -> "
              "tables -> chunk... -> indexes+attributes): an unfinished or failed destination is never recognised, every other "
              "collection is exactly as before (append mode), only complete collections are recognised, a successful call stores "
              "exactly the records given. Conformance: the real create_cooler is driven by an input iterator that projects the real "
              "file (h5py) every time the next chunk is requested and at the end, with invalid records of each kind at every chunk "
              "index and position, iterator failures before every chunk and injected failures in the table/index/attribute "
              "writers, for six destination set-ups and random histories; TLC steps the model along the recorded points and "
              "compares the file view at each (stateAsModel) and evaluates the property predicates on the observed files; merge, "
              "coarsen and unordered creation are run as producers into multi-collection files with injected failures. Spec -> code: "
              "behaviours generated by TLC's simulator from the writer model (MC_CreateSim) are replayed into create_cooler. "
              "Crash points are also PROCESS DEATHS: the call runs in a forked child that dies (os._exit) right before every file "
              "open of the writer (about 500 deaths in the quick tier, each also followed by a re-creation over the wreck); the "
              "file left behind must equal the model after some prefix of the steps (killedStateIsAPrefixOfTheSteps)."),
        design_ref="DESIGN.md section 6 C13, section 4.3, section 5.2d'",
        note=("Trusted: TLC, h5py projection. Failures are Python exceptions at step boundaries and process deaths at the points where "
              "the file is closed (each step opens/closes the file), not HDF5-level torn writes or deaths while HDF5 holds the file open. A failed re-creation over a previously recognised collection is outside the property's domain."),
        technique="TLA+ model checking (TLC) of the stepwise writer with crash actions + TLC validation of recorded file states",
        category="model_checking"),
    "C06": dict(
        text=("TLC checks (Merge.tla) the exact transcription of merge_breakpoints for ALL combined-index shapes (4-5 rows, <=3 records "
              "per row) x buffers (terminates, no index error, strictly increasing from 0, every record consumed, buffer respected "
              "unless one row is larger), the merger for ALL pairs/triples of stores on 2 bins x buffers (= exact aggregate, sorted), "
              "the first-pass grouping for ALL (chunk count <= 12/30, max_merge) and that unordered creation = aggregating all "
              "chunks at once; the pinned grouping is kept as FirstPassEdgesPinned and refuted (defect F10, fixed). The real "
              "create_cooler(ordered=False) is run for every chunk count 1..10 x max_merge and on random record bags with repeated "
              "pixels x partitions x chunk orders x buffers x max_merge x storage modes with a private temp dir; TLC validates result "
              "= aggregate, ValidCSR, no temp file left, and the pass structure taken."),
        design_ref="DESIGN.md section 6 C06, section 4.8",
        note="Trusted: TLC, structural projection. Chunks are duplicate-free internally (otherwise invalid input, C13).",
        technique="TLA+ model checking (TLC) of the external merge + TLC trace validation of real unordered ingestion",
        category="model_checking"),
    "C07": dict(
        text=("Same specification module (Merge.tla): merger output = MergeOf (per-pixel aggregate of the multiset union) for all small "
              "input families and buffers; order independence and associativity as equalities of Layer D values. Real "
              "merge_coolers / `cooler merge` runs on 1-4 inputs (incl. empty, identical supports) x buffers x input orders x 1-3 "
              "value columns with sum/max/min x nested merges; int8/int16 values near the type limit (exact aggregate or an error, "
              "never a different value); nine kinds of incompatible inputs must be refused; merge_breakpoints is validated at "
              "function level on every small index family. TLC validates every outcome (MergeTrace.tla) incl. ValidCSR and total."),
        design_ref="DESIGN.md section 6 C07, section 4.8",
        note=("Trusted: TLC, structural projection. Overflow exercised with int8/int16 columns because TLC integers are 32-bit; the code "
              "path is dtype-generic."),
        technique="TLA+ model checking (TLC) of the merge algorithm + TLC trace validation of real merges",
        category="model_checking"),
    "C01": dict(
        text=("Every created cooler is read back through the public API (pixel table with all value columns, dense and sparse full "
              "matrix, tables, metadata, assembly) and raw; TLC validates each read-back against the declarative data model "
              "(CoolerData.tla: FullRecords = stored records, plus mirror images in symmetric-upper mode; DenseBlock) - clauses "
              "pixelsExact, matrixIsFullMatrix, extraColumnMatrix, tableUnchanged, metaUnchanged, assemblyUnchanged and all "
              "ValidCSR clauses. Inputs: sampled/exhaustive stores on 3-bin tables, structured and random stores on six table "
              "shapes, x input form (frame, shuffled frame, dict, iterator/list of frame/dict chunks of any sizes incl. empty "
              "chunks, dense-array loader) x dtypes x HDF5 filter options x JSON metadata x root/nested destination x "
              "path/URI/handle. The index builder model is model-checked (MC_Index)."),
        design_ref="DESIGN.md section 6 C01",
        note=("Trusted: TLC, structural projection. The stepwise writer model (Create.tla) is checked under C13. dask input not "
              "covered; assembly names that are JSON literals are outside the domain."),
        technique="TLC trace validation of real create/read round trips against the TLA+ data model",
        category="model_checking"),
    "C02": dict(
        text=("TLC checks the index builders exhaustively (MC_Index: all arrays of length<=6 over 3 values x all block sizes: blocked "
              "run-length encoding = plain; index = RLIndex for every sorted key column). Every collection written by creation (all "
              "input forms), append-creation, merge, coarsen, unordered ingestion (one and two merge passes), zoomify, single-cell "
              "creation and `cooler load` - applied in sequence to several collections per file - is projected raw with h5py and "
              "each clause of CoolerData!ValidCSR is evaluated by TLC; util.rlencode / index_pixels / index_bins are validated at "
              "function level on the exhaustive small scope; one create with > 10^6 pixels crosses the builder's block boundary "
              "end to end."),
        design_ref="DESIGN.md section 6 C02, section 4.4",
        note="Trusted: TLC, h5py raw projection. The > 10^6-pixel case is validated through the run list of bin1_id.",
        technique="TLA+ model checking (TLC) of the index builder + TLC trace validation of raw collections",
        category="model_checking"),
    "C04": dict(
        text=("TLC checks for ALL bin tables with <=2 (thorough: 3) chromosomes of length <=5 (every composition into bins: uniform, "
              "short or long last bin, one-bin chromosomes, variable) and ALL (chrom,start,end) that the extent arithmetic of the "
              "implementation (Extent.tla: fixed-width floor/ceil path or searchsorted path, selected by the recorded bin size as "
              "inferred by get_binsize) equals the covering run of bins (CoolerData!Covering) and stays inside the chromosome. "
              "The real Cooler.extent/offset/bins.fetch/pixels.fetch/matrix.fetch are run on a real cooler for every such table "
              "(<=2 chromosomes x length<=4 in the quick tier) and every range, as tuple/UCSC string/bare name/open-ended, and TLC "
              "validates every recorded answer (ExtentTrace.tla)."),
        design_ref="DESIGN.md section 6 C04, section 4.6",
        note=("Trusted: TLC, structural JSON projection. Empty ranges are judged exactly as the property states (at most one bin, "
              "touching the position). Index-space queries are C03's business. Bounded scope as stated."),
        technique="TLA+ model checking (TLC) of extent arithmetic + TLC trace validation of real lookups",
        category="model_checking"),
    "C12": dict(
        text=("TLC checks for all stores on 3 bins, all weight vectors over {1,2,NaN}, all windows, both engines and all span "
              "partitions that the implementation's weight selection (bias1 from the row range, bias2 from the column range, "
              "shared only when the ranges are identical; reciprocal for divisive weights) equals raw x W[row] x W[col] "
              "(RangeQuery.tla). The real API is run with weight columns holding powers of two and NaN (so all products are exact) "
              "for every window x dense/sparse/pixel output x multiplicative/divisive/default x column names (weight, custom, KR, "
              "VC, VC_SQRT) and TLC validates each result exactly; a missing column must be an error."),
        design_ref="DESIGN.md section 6 C12, section 4.5",
        note=("Trusted: TLC; exactness argument for power-of-two weights in IEEE arithmetic. cooler dump --balanced is covered under "
              "C16. pydata/sparse output not covered."),
        technique="TLA+ model checking (TLC) of weight selection + TLC trace validation of real balanced reads",
        category="model_checking"),
    "C20": dict(
        text=("TLC checks that fixed-width binning (transcribed util.binnify) tiles every chromosome-size vector (1-3 chromosomes, "
              "lengths<=5, widths<=7) exactly, and that for ALL valid bin tables a bin size inferred by the (repaired) get_binsize "
              "is true (every bin is [k*b, min((k+1)*b, length))) and inferred chromosome sizes are the last ends; the pinned "
              "inference is kept as InferBinsizeLoose and TLC refutes it (defect F1, fixed). The real binnify / `cooler makebins` / "
              "parse_bins / get_binsize / get_chromsizes / attributes of created coolers are run on the same spaces and validated "
              "by TLC (ExtentTrace.tla)."),
        design_ref="DESIGN.md section 6 C20, section 4.6",
        note="Trusted: TLC, structural JSON projection. Bounded scope as stated (all compositions of lengths <= 5; sampled larger).",
        technique="TLA+ model checking (TLC) of binning/inference + TLC trace validation of real tables",
        category="model_checking"),
    "C03": dict(
        text=("TLC checks exhaustively (all stores on 3 bins with values<=2 symm / <=1 square, 4 bins in the thorough tier; "
              "all windows; both engines; ALL admissible row-span partitions) that the transcription of the query algorithm "
              "(RangeQuery.tla, Layer A) returns exactly the sub-block of the full matrix (CoolerData.tla, Layer D), each "
              "element once, direct engine in storage order. The real engines and the public API are then run on the same "
              "exhaustive small scope plus random larger stores, and TLC validates every recorded result (trace "
              "specification RangeQueryTrace.tla) against Layer D, and the recorded boxes/spans against Layer A."),
        design_ref="DESIGN.md section 6 C03, section 4.5",
        note=("Trusted: TLC, the JSON projection of results (structural only), a valid row index as input (C02). "
              "Bounded scope: n<=3 exhaustive (quick), n<=4 exhaustive + structured n<=6 + random n<=9 (thorough). "
              "pydata/sparse output not covered (package absent). Slice bounds beyond the table / reversed ranges are observed "
              "separately and judged by their own clause: open known finding F29 (the repair breaks an existing test)."),
        technique="TLA+ model checking (TLC) of the query algorithm + TLC trace validation of real query results",
        category="model_checking"),
}

REASON_PENDING = "check not built yet; planned with the same technique (DESIGN.md section 6); not claimed until it runs"


def main():
    checks = []
    for pid in ALL:
        if pid not in CLAIMED:
            continue
        c = CLAIMED[pid]
        checks.append({
            "property_id": pid,
            "quick_cmd": f"./check {pid} --tier quick",
            "thorough_cmd": f"./check {pid} --tier thorough",
            "evidence_file": f"/verif/evidence/{pid}.json",
            "replay_cmd_template": f"./check {pid} --replay {{path}}",
            "engine": "tlc",
            "level_claimed": {"category": c["category"], "text": c["text"], "design_ref": c["design_ref"]},
            "level_note": c["note"],
            "technique": c["technique"],
        })
    m = {
        "version": 1,
        "setup_cmd": "./check --selftest",
        "hooks": {
            "guard": "COOLER_VERIF",
            "enable": "the harness sets COOLER_VERIF=1 before importing cooler from /repo/src (editable install: always the current working tree)",
            "baseline_off_cmd": "cd /repo && env -u COOLER_VERIF /venv/bin/python -m pytest -ra -q -p no:cacheprovider --timeout=900 --continue-on-collection-errors",
            "source_commits": [],  # no hook commits yet; fix: commits are listed in known_findings.json
            "add_only": True,
        },
        "engines": [{
            "name": "tlc", "path": "/verif/check",
            "serves_properties": sorted(CLAIMED),
            "kind_free_text": "explicit TLA+ specification (spec/*.tla) checked by TLC; conformance by TLC trace validation of events recorded from the real code and by replaying TLC-generated behaviours into it",
        }],
        "checks": checks,
        "notes": ("All verdicts are made by TLC on the TLA+ specification in /verif/spec. Exit 2 = machinery failure (never a VIOLATION). "
                  "Every driver varies, by independent per-case feature choices, where the collection lives (file root / nested group next "
                  "to a decoy collection with other content, bin table and names), what the path held before, the row labels and dtypes of "
                  "the frames handed in, value types, and API vs command line (DESIGN.md section 5.2e). Open known findings: F3 (C05), "
                  "F19 (C10), F29 (C03) - classified by TLC clause names, see known_findings.json. Pinned / deliberately broken instances of "
                  "the specification are run and must be refuted by TLC (Run.expect_refuted). Beyond the listed properties: ./check X01 "
                  "(Session.tla: in-place mutation of a collection) and ./check X02 (Zoom.tla: construction of multi-resolution files "
                  "killed at every step) and ./check X03 (NatSort.tla: natural ordering of sequence names, read_chromsizes), evidence under evidence_extra/."),
        "not_applicable": [{"property_id": p, "reason": NA.get(p, REASON_PENDING)} for p in ALL if p not in CLAIMED],
    }
    with open(os.path.join(ROOT, "MANIFEST.json"), "w") as f:
        json.dump(m, f, indent=1)
    print("MANIFEST.json:", len(checks), "checks;", len(m["not_applicable"]), "not claimed")


NA = {}

if __name__ == "__main__":
    main()
