#!/venv/bin/python
"""Regenerates MANIFEST.json from the table below (keeps it valid at all times)."""
import json
import os

ROOT = os.path.dirname(os.path.dirname(os.path.abspath(__file__)))
ALL = [f"C{k:02d}" for k in range(1, 21)]

CLAIMED = {
    "C03": dict(
        text=("TLC checks exhaustively (all stores on 3 bins with values<=2 symm / <=1 square, 4 bins in the thorough tier; "
              "all windows; both engines; ALL admissible row-span partitions) that the transcription of the query algorithm "
              "(RangeQuery.tla, Layer A) returns exactly the sub-block of the full matrix (CoolerData.tla, Layer D), each "
              "element once, direct engine in storage order. The real engines and the public API are then run on the same "
              "exhaustive small scope plus random larger stores, and TLC validates every recorded result (trace "
              "specification RangeQueryTrace.tla) against Layer D, and the recorded boxes/spans against Layer A."),
        design_ref="DESIGN.md section 6 C03, section 4.5",
        note=("Trusted: TLC, the JSON projection of results (structural only), a valid row index as input (C02). "
              "Bounded scope: n<=3 exhaustive (quick), n<=4 exhaustive + structured n<=6 + random n<=9 (thorough). "
              "pydata/sparse output not covered (package absent)."),
        technique="TLA+ model checking (TLC) of the query algorithm + TLC trace validation of real query results",
        category="model_checking"),
}

REASON_PENDING = "check not built yet; planned with the same technique (DESIGN.md section 6); not claimed until it runs"


def main():
    checks = []
    for pid in ALL:
        if pid not in CLAIMED:
            continue
        c = CLAIMED[pid]
        checks.append({
            "property_id": pid,
            "quick_cmd": f"./check {pid} --tier quick",
            "thorough_cmd": f"./check {pid} --tier thorough",
            "evidence_file": f"/verif/evidence/{pid}.json",
            "replay_cmd_template": f"./check {pid} --replay {{path}}",
            "engine": "tlc",
            "level_claimed": {"category": c["category"], "text": c["text"], "design_ref": c["design_ref"]},
            "level_note": c["note"],
            "technique": c["technique"],
        })
    m = {
        "version": 1,
        "setup_cmd": "./check --selftest",
        "hooks": {
            "guard": "COOLER_VERIF",
            "enable": "the harness sets COOLER_VERIF=1 before importing cooler from /repo/src (editable install: always the current working tree)",
            "baseline_off_cmd": "cd /repo && env -u COOLER_VERIF /venv/bin/python -m pytest -ra -q -p no:cacheprovider --timeout=900 --continue-on-collection-errors",
            "source_commits": [],
            "add_only": True,
        },
        "engines": [{
            "name": "tlc", "path": "/verif/check",
            "serves_properties": sorted(CLAIMED),
            "kind_free_text": "explicit TLA+ specification (spec/*.tla) checked by TLC; conformance by TLC trace validation of events recorded from the real code and by replaying TLC-generated behaviours into it",
        }],
        "checks": checks,
        "notes": "All verdicts are made by TLC on the TLA+ specification in /verif/spec. Exit 2 = machinery failure (never a VIOLATION).",
        "not_applicable": [{"property_id": p, "reason": NA.get(p, REASON_PENDING)} for p in ALL if p not in CLAIMED],
    }
    with open(os.path.join(ROOT, "MANIFEST.json"), "w") as f:
        json.dump(m, f, indent=1)
    print("MANIFEST.json:", len(checks), "checks;", len(m["not_applicable"]), "not claimed")


NA = {}

if __name__ == "__main__":
    main()
