#!/venv/bin/python
"""Write the prompts for a round of independent mutation agents: tools/mkprompts.py <round> <outdir> [Cxx ...]
Each prompt holds ONLY the property text (statement, scope, anchor files), the workspace rules and one-line descriptions of
the mechanisms earlier rounds already explored (so that the new round looks elsewhere) - nothing about /verif."""
import glob
import json
import os
import sys

ROOT = os.path.dirname(os.path.dirname(os.path.abspath(__file__)))
TEMPLATE = """You are helping test a verification effort for the Python library open2c/cooler (a library + CLI for the "cooler" HDF5 format: sparse genomic contact matrices). Your job: produce realistic, subtle code changes ("seeded defects") to cooler that BREAK one stated behavioural property while the code still imports and the repository's existing test suite still passes.

## The property ({pid}: {title})
{statement}

Scope of the property (what it quantifies over): {scope}

Files where the behaviour mostly lives: {files}

## Your workspace
- A private git worktree of the repository: {wt}  (edit files under {wt}/src/cooler only). NEVER touch /repo or /verif, and do not read anything under /verif.
- Write your deliverables to {out}/ .
- Python: /venv/bin/python (has numpy, pandas, h5py, scipy, pytest, click, pysam...). The package is installed in editable mode from /repo/src, so to run YOUR modified copy you must put it first on the path: `cd {wt} && PYTHONPATH={wt}/src /venv/bin/python ...` (verify with `python -c "import cooler; print(cooler.__file__)"`).
- Existing test suite (must still pass with your change, except `tests/test_create.py::test_roundtrip` which always fails in this sandbox because its data file is empty):
  `cd {wt} && mkdir -p {tmp} && TMPDIR={tmp} PYTHONPATH={wt}/src /venv/bin/python -m pytest -q -p no:cacheprovider --no-cov -x --deselect tests/test_create.py::test_roundtrip`
  (ALWAYS set the private TMPDIR as shown: the tests write fixed file names such as test.cool into the temp dir and other people run the same suite concurrently on this machine; run it serially - the suite is NOT safe under pytest-xdist `-n`; takes a few minutes; run the most relevant test files first, the whole suite at the end). No network is available.

## What to produce: TWO independent seeded defects (mutant A and mutant B)
Each is a small, realistic change to the library source (the kind of slip a maintainer could make in a refactor or "optimisation": an off-by-one, a wrong comparison, a dropped case, a swapped argument, a stale cache, a wrong default, state carried across chunks incorrectly, a condition that is too narrow/broad, two sites that each look fine alone ...) such that:
1. the property above is violated for SOME inputs/configurations/sequences of operations, but NOT for ordinary everyday use: it must need something specific to manifest (an unusual but valid input such as empty rows, a window position relative to the diagonal, a particular chunk size or buffer size, a boundary position, a specific multi-step sequence of operations, a particular option combination, etc.). Changes that break nearly every call are NOT wanted.
2. the package still imports, and the full existing test suite still passes (same results as before your change).
3. the two mutants are different in mechanism/location from each other.
Do not add obviously artificial code (no `if x == 12345`, no random failures, no env-var switches); it should look like plausible code.

For each mutant X in {{A, B}} write:
- {out}/X/patch.diff : produced with `git -C {wt} diff` with ONLY that mutant applied (reset the worktree with `git -C {wt} checkout -- .` between mutants), applicable with `git apply` at the repository root.
- {out}/X/demo.py : a small standalone program (uses only the cooler public API/CLI, numpy, pandas, h5py, tempfile) that exits with status 0 and prints PASS on the ORIGINAL code, and exits with non-zero status and prints FAIL (with a short explanation of what it observed vs expected) on the mutated code. It must import whatever `cooler` is first on PYTHONPATH, write only to a tempfile.mkdtemp() directory, and clean up.
- {out}/X/meta.json : {{"property": "{pid}", "summary": "<one sentence: what was changed>", "needs": "<what specific input/sequence/configuration is needed to manifest>", "files": ["..."], "tests_run": "<the pytest command you ran and its summary line>"}}

Verify yourself, for each mutant: (a) demo.py passes on the original (use `git checkout -- .`; NEVER use `git stash`: stashes are shared between worktrees) and fails on the mutant; (b) the full test suite passes with the mutant applied. Leave the worktree clean (`git -C {wt} checkout -- .`) when done.

Finish by replying with a short summary of the two mutants (what, where, what is needed to trigger) and confirmation of (a) and (b). If you could only produce one valid mutant, say so.
{explored}"""


def main():
    rnd, outdir = sys.argv[1], sys.argv[2]
    only = set(sys.argv[3:])
    props = [json.loads(ln) for ln in open(os.path.join(ROOT, "properties.jsonl")) if ln.strip()]
    for p in props:
        pid = p["id"]
        if only and pid not in only:
            continue
        done = []
        for mf in sorted(glob.glob(os.path.join(ROOT, "seeded", "*", "meta.json"))):
            m = json.load(open(mf))
            if m.get("property") == pid and m.get("summary"):
                done.append("- " + " ".join(m["summary"].split()))
        explored = ""
        if done:
            explored = ("\n## Already explored (do NOT repeat these mechanisms; find different code sites / different kinds of slips)\n"
                        + "\n".join(done) + "\n\nPrefer defects in parts of the behaviour that the above did not touch (other functions, "
                        "other options, other producers/consumers such as the CLI commands or less used API entry points, multi-step "
                        "sequences of operations, interactions between two features, unusual but valid dtypes / index labels / "
                        "group locations / link kinds).\n")
        name = f"{pid}r{rnd}"
        txt = TEMPLATE.format(pid=pid, title=p["title"], statement=p["statement"], scope=p["quantifier"]["text"],
                              files=", ".join(p["anchors"]["files"]), wt=f"/tmp/mut/{name}", out=f"/tmp/mut/{name}_out",
                              tmp=f"/tmp/mut/{name}_tmp", explored=explored)
        with open(os.path.join(outdir, f"prompt_{name}.txt"), "w") as f:
            f.write(txt)
        print("wrote", name, len(done), "explored")


main()
