#!/venv/bin/python
"""Seeded-defect bookkeeping.

  tools/mutants.py import  <Cxx> <A|B> <dir>    copy an agent's deliverables into /verif/seeded/<Cxx><A|B>/
  tools/mutants.py confirm <name>               scratch worktree: demo passes on HEAD, fails with the patch; full
                                                test suite passes with the patch (guard off).  Updates meta.json.
  tools/mutants.py detect  <name> [Cyy ...]     run the quick checks of the listed properties (default: the mutant's own)
                                                against a scratch copy of the patched source; records which ones alarm.
Scratch worktrees/copies live under /tmp and are removed afterwards.
"""
import json
import os
import shutil
import subprocess
import sys
import tempfile

ROOT = os.path.dirname(os.path.dirname(os.path.abspath(__file__)))
SEEDED = os.path.join(ROOT, "seeded")
PY = "/venv/bin/python"


def sh(cmd, **kw):
    return subprocess.run(cmd, shell=True, capture_output=True, text=True, **kw)


def load(name):
    d = os.path.join(SEEDED, name)
    with open(os.path.join(d, "meta.json")) as f:
        return d, json.load(f)


def save(d, meta):
    with open(os.path.join(d, "meta.json"), "w") as f:
        json.dump(meta, f, indent=1)


def cmd_import(prop, x, src):
    name = f"{prop}{x}"
    d = os.path.join(SEEDED, name)
    os.makedirs(d, exist_ok=True)
    for fn in ("patch.diff", "demo.py"):
        shutil.copy(os.path.join(src, fn), os.path.join(d, fn))
    with open(os.path.join(src, "meta.json")) as f:
        m = json.load(f)
    meta = {"name": name, "property": prop, "summary": m.get("summary", ""), "needs": m.get("needs", ""),
            "files": m.get("files", []), "author": "independent sub-agent (saw only the property text)",
            "agent_tests_run": m.get("tests_run", "")}
    save(d, meta)
    print("imported", name)


def cmd_confirm(name):
    d, meta = load(name)
    wt = tempfile.mkdtemp(prefix=f"cvf_wt_{name}_")
    os.rmdir(wt)
    tmpd = tempfile.mkdtemp(prefix=f"cvf_tmp_{name}_")
    try:
        r = sh(f"git -C /repo worktree add -q --detach {wt} HEAD")
        if r.returncode:
            raise SystemExit(r.stderr)
        env = dict(os.environ, PYTHONPATH=f"{wt}/src", TMPDIR=tmpd)
        env.pop("COOLER_VERIF", None)
        r0 = subprocess.run([PY, os.path.join(d, "demo.py")], cwd=wt, env=env, capture_output=True, text=True, timeout=900)
        ra = sh(f"git -C {wt} apply {d}/patch.diff")
        if ra.returncode:
            meta["confirmed"] = False
            meta["confirm_note"] = "patch does not apply to current HEAD: " + ra.stderr[:300]
            save(d, meta)
            print(name, "PATCH DOES NOT APPLY", ra.stderr[:300])
            return 1
        r1 = subprocess.run([PY, os.path.join(d, "demo.py")], cwd=wt, env=env, capture_output=True, text=True, timeout=900)
        rt = subprocess.run([PY, "-m", "pytest", "-q", "-p", "no:cacheprovider", "--no-cov", "--timeout=900",
                             "--deselect", "tests/test_create.py::test_roundtrip"],
                            cwd=wt, env=env, capture_output=True, text=True, timeout=3600)
        summary = [ln for ln in rt.stdout.splitlines() if " passed" in ln or " failed" in ln][-1:] or [rt.stdout[-200:]]
        ok = r0.returncode == 0 and r1.returncode != 0 and rt.returncode == 0
        meta["confirmed"] = ok
        meta["confirm"] = {
            "base": sh("git -C /repo rev-parse --short HEAD").stdout.strip(),
            "demo_on_head": {"rc": r0.returncode, "tail": r0.stdout.strip()[-200:]},
            "demo_with_patch": {"rc": r1.returncode, "tail": r1.stdout.strip()[-300:]},
            "suite_with_patch": {"rc": rt.returncode, "summary": summary[0]},
            "cmd": "demo.py with PYTHONPATH=<worktree>/src; pytest -q --no-cov --deselect tests/test_create.py::test_roundtrip (guard off, private TMPDIR)",
        }
        save(d, meta)
        print(name, "CONFIRMED" if ok else "NOT CONFIRMED", meta["confirm"])
        return 0 if ok else 1
    finally:
        sh(f"git -C /repo worktree remove --force {wt}")
        shutil.rmtree(wt, ignore_errors=True)
        shutil.rmtree(tmpd, ignore_errors=True)


def cmd_detect(name, props):
    d, meta = load(name)
    props = props or [meta["property"]]
    root = tempfile.mkdtemp(prefix=f"cvf_src_{name}_")
    try:
        shutil.copytree("/repo/src", os.path.join(root, "src"))
        r = sh(f"patch -p1 -d {root} < {d}/patch.diff")
        if r.returncode:
            print(name, "patch failed:", r.stdout[-300:], r.stderr[-300:])
            return 2
        det = meta.setdefault("detection", {})
        for p in props:
            env = dict(os.environ, VERIF_REPO_SRC=os.path.join(root, "src"), VERIF_NO_EVIDENCE="1",
                       VERIF_REPLAY_DIR=os.path.join(root, "replays"))
            rr = subprocess.run([os.path.join(ROOT, "check"), p, "--tier", "quick"], cwd=ROOT, env=env,
                                capture_output=True, text=True, timeout=3600)
            viol = [ln for ln in rr.stdout.splitlines() if ln.startswith("VIOLATION")]
            clauses = sorted({c for ln in viol for c in ln.split("clauses=")[-1].split(",")})
            det[p] = {"rc": rr.returncode, "violation_lines": len(viol), "clauses": clauses,
                      "tail": rr.stdout.strip().splitlines()[-1:] + rr.stderr.strip().splitlines()[-2:]}
            print(name, p, "rc", rr.returncode, "clauses", clauses)
        meta["detected_by"] = sorted(p for p, v in det.items() if v["rc"] == 1)
        save(d, meta)
        return 0
    finally:
        shutil.rmtree(root, ignore_errors=True)


if __name__ == "__main__":
    a = sys.argv[1:]
    if a[0] == "import":
        sys.exit(cmd_import(a[1], a[2], a[3]))
    if a[0] == "confirm":
        sys.exit(cmd_confirm(a[1]))
    if a[0] == "detect":
        sys.exit(cmd_detect(a[1], a[2:]))
