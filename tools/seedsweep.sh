#!/bin/sh
# run every claimed quick check under several seeds (false-alarm hunt); evidence files are left alone
cd "$(dirname "$0")/.."
for s in ${SEEDS:-1 2 3}; do
  for p in $(python3 -c "import json;print(' '.join(c['property_id'] for c in json.load(open('MANIFEST.json'))['checks']))"); do
    out=$(VERIF_SEED=$s VERIF_NO_EVIDENCE=1 VERIF_REPLAY_DIR=/tmp/sweep_replays_$s ./check $p --tier ${TIER:-quick} 2>&1 | tail -3)
    echo "seed=$s $p :: $(echo "$out" | tail -1)"
    echo "$out" | grep -E "VIOLATION|MACHINERY|rejected" | head -3
  done
done
