#!/bin/sh
# run every thorough check once (evidence untouched); prints one line per property with the wall time
cd "$(dirname "$0")/.."
for p in ${PROPS:-C01 C02 C03 C04 C05 C06 C07 C08 C09 C10 C11 C12 C13 C14 C15 C16 C17 C18 C19 C20}; do
  t0=$(date +%s)
  out=$(VERIF_SEED=${SEED:-0} VERIF_NO_EVIDENCE=1 VERIF_REPLAY_DIR=/tmp/thorough_replays ./check $p --tier thorough 2>&1 | tail -4)
  echo "$p $(( $(date +%s) - t0 ))s :: $(echo "$out" | tail -1)"
  echo "$out" | grep -E "VIOLATION|MACHINERY|rejected|DRIFT" | head -4
done
